#!/usr/bin/env python3
"""Regenerates MANIFEST.json from the table below (run after adding a check)."""
import json, os, subprocess
ROOT = os.path.dirname(os.path.abspath(__file__))
props = [json.loads(l) for l in open(os.path.join(ROOT, "properties.jsonl"))]

TRUST = ("Trusted base: the harness' ABCI driver (real JackalApp over MemDB, real ante handler, bank, gov), "
         "the reference model/oracle written from the property statement, Go runtime. "
         "Verdict = held on the executions produced, not a proof.")

CLAIMED = {
 "C01": dict(tech="runtime monitor: reference proof verifier + state-digest invariant around every PostProof, reward-block payee/credited-bytes oracle (hooked sizeTracker + bank event log)",
             text="Every generated proof submission (12 payload classes x newcomer/listed x room/full) is judged by an independent verifier and the chain must leave prover list, proof records and balance untouched when it is invalid; every following reward block is checked for credit/payment to never-validly-proven accounts. Violations are single-step observable, so per-step monitoring over mutated payloads and histories is the right level.",
             ref="5/C01"),
 "C02": dict(tech="runtime monitor: honest-prover acceptance + challenge-range oracle; small-scope enumeration of proof schedules with never-removed/never-burned invariant at reward blocks",
             text="Part (a) drives honest proofs over boundary file sizes with varying block gas and checks every challenge and acceptance (and client/chain tree agreement); part (b) enumerates the bounded schedule space (thorough: completely) and checks after each reward block that a once-per-window prover is still listed and unburned.",
             ref="5/C02"),
 "C03": dict(tech="runtime monitor: reference reward model vs hooked sizeTracker, post-state prover lists/burn counters and transfer event log at every reward BeginBlock",
             text="Each reward block of generated multi-file / multi-prover histories (any failing subset and position) is compared against a reference computed from the queried pre-state: counted-once, removal+burn, proportional payouts within one unit, sum<=released.",
             ref="5/C03"),
 "C04": dict(tech="runtime monitor: full balance/supply snapshot diff around every purchase against the keeper's own price functions and the statement's split",
             text="Every BuyStorage / pay-once PostFile of generated histories (tiers, durations, referral kinds, plan states, price feeds, ratio grid) is checked for exact debit, gauge funding == record, POL/referrer/staker shares within one unit, remainder in module, no other account touched, supply constant; failures must move nothing.",
             ref="5/C04"),
 "C07": dict(tech="runtime monitor: plan-usage invariant (queries StoragePaymentInfo/GetClientFreeSpace vs AllFilesByOwner) after every tx and BeginBlock",
             text="The accounting invariant is evaluated at every quiescent point of generated buy/post/delete/prove/drop histories including same-key re-posts, boundary and hostile sizes.",
             ref="5/C07"),
 "C11": dict(tech="runtime enumeration of all registered message types x address fields through the real ante chain; KV-diff non-interference monitor; contract-plugin boundary calls",
             text="All 45 message types (three independent enumerations must agree) are pushed through real signature verification for the creator and for every other address-bearing field; stranger replays of owner-only messages are checked by raw KV diffs of the six custom stores; the wasm plug-in boundary is called directly with matching / foreign contract addresses.",
             ref="5/C11"),
 "C12": dict(tech="runtime monitor: per-gauge linear-release oracle over escrow balance snapshots and transfer events at every BeginBlock",
             text="Each gauge of generated histories (amounts 1..1e15, 1 day..3 years, irregular/zero/sub-second time steps, concurrent and same-block-equal gauges) is checked at every block for exact pro-rata cumulative release (+-1), monotonicity, cap, and silence outside reward blocks / its interval.",
             ref="5/C12"),
 "C13": dict(tech="runtime monitor: per-block bank event-log + balance/supply snapshot oracle over generated parameter sets and block runs",
             text="Every block of every generated run (parameter grid x 40..2000 consecutive blocks, incl. governance changes mid-run) is checked against an exact-arithmetic oracle of emission, split and remainder; a violation needs only one block to show, so per-block monitoring over boundary parameter sets is the appropriate level.",
             ref="5/C13"),
 "C14": dict(tech="runtime monitor: reference model of form signatures vs queries Attestation/Report/Proof/File after every message; (size,min) x template grid enumerated",
             text="All (form size, minimum) pairs x 7 signature-sequence templates are enumerated by case index with PRNG populations; after every message the model's distinct-named-signer set decides exactly when the action may happen.",
             ref="5/C14"),
 "C15": dict(tech="runtime monitor: escrow-balance == sum(collateral records) invariant and exact debit/credit oracle after every tx, with real governance price changes",
             text="Init/shutdown/re-init histories by several accounts with governance CollateralPrice changes between lock and refund; invariant and exact amounts checked after every transaction.",
             ref="5/C15"),
}

CLAIMED.update({
 "C05": dict(tech="runtime panic monitor (recover around BeginBlock/EndBlock/Commit) under mutational history fuzzing of all 45 message types",
             text="Histories mix semantically valid template messages with boundary/hostile field mutations and type-directed random messages of every registered type (round-robin), keep only ValidateBasic-passing transactions, and run through reward heights and gauge ends after each burst; the oracle is the un-recovered panic itself, so monitoring the ABCI entry points is exactly the observable the property names.",
             ref="5/C05"),
 "C10": dict(tech="runtime monitor: independent file-tree model vs raw KV dump of Files/value/ after every message",
             text="Every handler signed by owner/editor/viewer/stranger with crafted strings; the model predicts the exact permitted diff and any other diff or unauthorised success is a finding.",
             ref="5/C10"),
 "C17": dict(tech="runtime invariant monitor over queries AllFiles/AllFilesByMerkle/AllFilesByOwner/Proof/ProofsByAddress/FindFile after every tx and BeginBlock",
             text="Index equality, prover-list well-formedness and proof back-references are evaluated at every quiescent point of histories that exercise every path writing files or proofs (post, re-post, delete, prove, report, attest, shutdown, reward removals at every list position, chain drops).",
             ref="5/C17"),
 "C18": dict(tech="runtime monitor: reference inbox model vs queries AllNotificationsByAddress/AllNotifications/Notification after every message",
             text="Create/delete/block histories among several accounts with address and name targets, same-block bursts, crafted From strings and name transfers; all inboxes compared with the model after every step.",
             ref="5/C18"),
 "C19": dict(tech="differential runtime monitor: KV dumps + ~150 query answers + module genesis before export vs after InitChain of a fresh app on the exported state",
             text="Random histories that populate all 20 record kinds are exported with the real ExportAppStateAndValidators, validated, imported into a fresh app and compared record by record, query by query and export by export. Known, unrepaired losses (records with no protobuf genesis field; invalid-UTF-8 strings) are listed one signature per store prefix / query in known_findings.json; any other difference is a violation.",
             ref="5/C19"),
 "C20": dict(tech="runtime oracle: independent fold vs MerklePath/AddToMerkle on generated byte-string paths; on-chain trees via real transactions",
             text="20k/1M generated segment sequences (all split points, trailing slash, distinctness over the sample) plus on-chain trees whose returned Path must equal the address computed from the plain path.",
             ref="5/C20"),
})

CLAIMED.update({
 "C06": dict(tech="differential replay monitor: recorded histories re-executed in independent OS processes (fresh map seeds, different GOMAXPROCS/GOGC, shifted wall clock, interleaved serialised CheckTx/Query/Simulate, recorded simulate-only transactions, node restarts on the same database, mid-block crashes with re-execution of the block), step digests compared; Go race detector on the replay in the thorough tier",
             text="Each generated history is executed by 2 (quick) or 3 (thorough, one under -race) independent processes and compared step by step on AppHash, tx code/gas/data and ordered events. Map-order, wall-clock or process-local dependence shows up as a digest mismatch between processes; the race detector reports unsynchronised access in canine-chain frames.",
             ref="5/C06",
             note="Trusted base: recorder/replayer in harness/chain/record.go, Go runtime map-seed randomisation per process as the source of iteration-order diversity, race detector. Concurrent ABCI calls are deliberately not generated (TM 0.34 serialises them)."),
})

CLAIMED.update({
 "C08": dict(tech="runtime monitor: reference model of names/listings/bids vs queries Name/ListOwnedNames/ForSale and bank balances after every rns message",
             text="Histories of all 14 rns messages by 4 accounts over seeded-to-expire, fresh and free names with targeted stale sequences; after every message the only permitted ownership/data/record change and the payee of paid moves are checked against the model.",
             ref="5/C08"),
 "C09": dict(tech="runtime invariant monitor: rns module balance == sum of open bids (AllBids) after every message and BeginBlock; exact refund/payout ledger",
             text="Bid/cancel/accept/register/buy/transfer interleavings in two denominations with repeated, zero and unaffordable bids; conservation and exact refunds checked at every step.",
             ref="5/C09"),
 "C16": dict(tech="runtime oracle: big-integer price and term rules vs registrant/POL balance deltas and Name query after every registration",
             text="Registrations of names of every price tier/TLD for boundary and overflow-crafted year counts by owner/previous owner/stranger at heights before, at, one after and long after expiry.",
             ref="5/C16"),
})
NOT_BUILT = "monitor not built yet in this session (design in DESIGN.md section 5); will be claimed once its check runs clean"

hooks_commits = subprocess.run(["git", "-C", "/repo", "log", "--format=%H", "--grep=^verif hooks"], capture_output=True, text=True).stdout.split()

m = {
 "version": 1,
 "setup_cmd": "./check --build-only",
 "hooks": {
   "guard": "verif",
   "enable": "go build -tags verif (the harness module replaces github.com/jackalLabs/canine-chain/v4 with /repo and is always built with -tags verif)",
   "baseline_off_cmd": "for m in $(cat /w/out/gomods.txt); do MF=$(cd /repo/$m && . /w/out/goenv.sh && gomodflag); (cd /repo/$m && go test $MF -json -vet=off -count=1 -timeout 25m ./...); done",
   "source_commits": hooks_commits,
   "add_only": True,
 },
 "engines": [
   {"name": "jkverif", "path": "harness/", "serves_properties": sorted(CLAIMED), "kind_free_text": "Go harness driving the real JackalApp through ABCI with online reference-model / invariant / event-log monitors; one child process per shard; python driver ./check"},
 ],
 "checks": [],
 "not_applicable": [],
 "notes": "Family: runtime monitoring. See DESIGN.md. known_findings.json lists recorded genuine defects (status known) and repaired ones (status fixed). Common to every check: every fourth case runs with node restarts injected after Commit (a new application instance on the same database, counter node_restarts_injected in the evidence); the checks of C01-C03, C07-C10, C12, C15-C18 additionally walk the listings their property is about page by page and compare with the one-shot listing (counters paged_listings_compared / paged_records_compared).",
}
for p in props:
    pid = p["id"]
    if pid in CLAIMED:
        c = CLAIMED[pid]
        m["checks"].append({
            "property_id": pid,
            "quick_cmd": "./check %s --tier quick" % pid,
            "thorough_cmd": "./check %s --tier thorough" % pid,
            "evidence_file": "/verif/evidence/%s.json" % pid,
            "replay_cmd_template": "./check %s --replay {path}" % pid,
            "engine": "jkverif",
            "level_claimed": {"category": "exploration", "text": c["text"], "design_ref": c["ref"]},
            "level_note": c.get("note", TRUST),
            "technique": c["tech"],
        })
    else:
        m["not_applicable"].append({"property_id": pid, "reason": NOT_BUILT})
json.dump(m, open(os.path.join(ROOT, "MANIFEST.json"), "w"), indent=1)
print("claimed", sorted(CLAIMED))
