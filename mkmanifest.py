#!/usr/bin/env python3
"""Regenerates MANIFEST.json from the table below (run after adding a check)."""
import json, os, subprocess
ROOT = os.path.dirname(os.path.abspath(__file__))
props = [json.loads(l) for l in open(os.path.join(ROOT, "properties.jsonl"))]

TRUST = ("Trusted base: the harness' ABCI driver (real JackalApp over MemDB, real ante handler, bank, gov), "
         "the reference model/oracle written from the property statement, Go runtime. "
         "Verdict = held on the executions produced, not a proof.")

CLAIMED = {
 "C01": dict(tech="runtime monitor: reference proof verifier + state-digest invariant around every PostProof, reward-block payee/credited-bytes oracle (hooked sizeTracker + bank event log)",
             text="Every generated proof submission (12 payload classes x newcomer/listed x room/full) is judged by an independent verifier and the chain must leave prover list, proof records and balance untouched when it is invalid; every following reward block is checked for credit/payment to never-validly-proven accounts. Violations are single-step observable, so per-step monitoring over mutated payloads and histories is the right level.",
             ref="5/C01"),
 "C02": dict(tech="runtime monitor: honest-prover acceptance + challenge-range oracle; small-scope enumeration of proof schedules with never-removed/never-burned invariant at reward blocks",
             text="Part (a) drives honest proofs over boundary file sizes with varying block gas and checks every challenge and acceptance (and client/chain tree agreement); part (b) enumerates the bounded schedule space (thorough: completely) and checks after each reward block that a once-per-window prover is still listed and unburned.",
             ref="5/C02"),
 "C03": dict(tech="runtime monitor: reference reward model vs hooked sizeTracker, post-state prover lists/burn counters and transfer event log at every reward BeginBlock",
             text="Each reward block of generated multi-file / multi-prover histories (any failing subset and position) is compared against a reference computed from the queried pre-state: counted-once, removal+burn, proportional payouts within one unit, sum<=released.",
             ref="5/C03"),
 "C04": dict(tech="runtime monitor: full balance/supply snapshot diff around every purchase against the keeper's own price functions and the statement's split",
             text="Every BuyStorage / pay-once PostFile of generated histories (tiers, durations, referral kinds, plan states, price feeds, ratio grid) is checked for exact debit, gauge funding == record, POL/referrer/staker shares within one unit, remainder in module, no other account touched, supply constant; failures must move nothing.",
             ref="5/C04"),
 "C07": dict(tech="runtime monitor: plan-usage invariant (queries StoragePaymentInfo/GetClientFreeSpace vs AllFilesByOwner) after every tx and BeginBlock",
             text="The accounting invariant is evaluated at every quiescent point of generated buy/post/delete/prove/drop histories including same-key re-posts, boundary and hostile sizes.",
             ref="5/C07"),
 "C11": dict(tech="runtime enumeration of all registered message types x address fields through the real ante chain; KV-diff non-interference monitor; contract-plugin boundary calls",
             text="All 45 message types (three independent enumerations must agree) are pushed through real signature verification for the creator and for every other address-bearing field; stranger replays of owner-only messages are checked by raw KV diffs of the six custom stores; the wasm plug-in boundary is called directly with matching / foreign contract addresses.",
             ref="5/C11"),
 "C12": dict(tech="runtime monitor: per-gauge linear-release oracle over escrow balance snapshots and transfer events at every BeginBlock",
             text="Each gauge of generated histories (amounts 1..1e15, 1 day..3 years, irregular/zero/sub-second time steps, concurrent and same-block-equal gauges) is checked at every block for exact pro-rata cumulative release (+-1), monotonicity, cap, and silence outside reward blocks / its interval.",
             ref="5/C12"),
 "C13": dict(tech="runtime monitor: per-block bank event-log + balance/supply snapshot oracle over generated parameter sets and block runs",
             text="Every block of every generated run (parameter grid x 40..2000 consecutive blocks, incl. governance changes mid-run) is checked against an exact-arithmetic oracle of emission, split and remainder; a violation needs only one block to show, so per-block monitoring over boundary parameter sets is the appropriate level.",
             ref="5/C13"),
 "C14": dict(tech="runtime monitor: reference model of form signatures vs queries Attestation/Report/Proof/File after every message; (size,min) x template grid enumerated",
             text="All (form size, minimum) pairs x 7 signature-sequence templates are enumerated by case index with PRNG populations; after every message the model's distinct-named-signer set decides exactly when the action may happen.",
             ref="5/C14"),
 "C15": dict(tech="runtime monitor: escrow-balance == sum(collateral records) invariant and exact debit/credit oracle after every tx, with real governance price changes",
             text="Init/shutdown/re-init histories by several accounts with governance CollateralPrice changes between lock and refund; invariant and exact amounts checked after every transaction.",
             ref="5/C15"),
}
NOT_BUILT = "monitor not built yet in this session (design in DESIGN.md section 5); will be claimed once its check runs clean"

hooks_commits = subprocess.run(["git", "-C", "/repo", "log", "--format=%H", "--grep=^verif hooks"], capture_output=True, text=True).stdout.split()

m = {
 "version": 1,
 "setup_cmd": "./check --build-only",
 "hooks": {
   "guard": "verif",
   "enable": "go build -tags verif (the harness module replaces github.com/jackalLabs/canine-chain/v4 with /repo and is always built with -tags verif)",
   "baseline_off_cmd": "for m in $(cat /w/out/gomods.txt); do MF=$(cd /repo/$m && . /w/out/goenv.sh && gomodflag); (cd /repo/$m && go test $MF -json -vet=off -count=1 -timeout 25m ./...); done",
   "source_commits": hooks_commits,
   "add_only": True,
 },
 "engines": [
   {"name": "jkverif", "path": "harness/", "serves_properties": sorted(CLAIMED), "kind_free_text": "Go harness driving the real JackalApp through ABCI with online reference-model / invariant / event-log monitors; one child process per shard; python driver ./check"},
 ],
 "checks": [],
 "not_applicable": [],
 "notes": "Family: runtime monitoring. See DESIGN.md. known_findings.json lists recorded genuine defects (status known) and repaired ones (status fixed).",
}
for p in props:
    pid = p["id"]
    if pid in CLAIMED:
        c = CLAIMED[pid]
        m["checks"].append({
            "property_id": pid,
            "quick_cmd": "./check %s --tier quick" % pid,
            "thorough_cmd": "./check %s --tier thorough" % pid,
            "evidence_file": "/verif/evidence/%s.json" % pid,
            "replay_cmd_template": "./check %s --replay {path}" % pid,
            "engine": "jkverif",
            "level_claimed": {"category": "exploration", "text": c["text"], "design_ref": c["ref"]},
            "level_note": c.get("note", TRUST),
            "technique": c["tech"],
        })
    else:
        m["not_applicable"].append({"property_id": pid, "reason": NOT_BUILT})
json.dump(m, open(os.path.join(ROOT, "MANIFEST.json"), "w"), indent=1)
print("claimed", sorted(CLAIMED))
