#!/usr/bin/env python3
"""Regenerates MANIFEST.json from the table below (run after adding a check)."""
import json, os, subprocess
ROOT = os.path.dirname(os.path.abspath(__file__))
props = [json.loads(l) for l in open(os.path.join(ROOT, "properties.jsonl"))]

TRUST = ("Trusted base: the harness' ABCI driver (real JackalApp over MemDB, real ante handler, bank, gov), "
         "the reference model/oracle written from the property statement, Go runtime. "
         "Verdict = held on the executions produced, not a proof.")

CLAIMED = {
 "C13": dict(tech="runtime monitor: per-block bank event-log + balance/supply snapshot oracle over generated parameter sets and block runs",
             text="Every block of every generated run (parameter grid x 40..2000 consecutive blocks, incl. governance changes mid-run) is checked against an exact-arithmetic oracle of emission, split and remainder; a violation needs only one block to show, so per-block monitoring over boundary parameter sets is the appropriate level.",
             ref="5/C13"),
}
NOT_BUILT = "monitor not built yet in this session (design in DESIGN.md section 5); will be claimed once its check runs clean"

hooks_commits = subprocess.run(["git", "-C", "/repo", "log", "--format=%H", "--grep=^verif hooks"], capture_output=True, text=True).stdout.split()

m = {
 "version": 1,
 "setup_cmd": "./check --build-only",
 "hooks": {
   "guard": "verif",
   "enable": "go build -tags verif (the harness module replaces github.com/jackalLabs/canine-chain/v4 with /repo and is always built with -tags verif)",
   "baseline_off_cmd": "for m in $(cat /w/out/gomods.txt); do MF=$(cd /repo/$m && . /w/out/goenv.sh && gomodflag); (cd /repo/$m && go test $MF -json -vet=off -count=1 -timeout 25m ./...); done",
   "source_commits": hooks_commits,
   "add_only": True,
 },
 "engines": [
   {"name": "jkverif", "path": "harness/", "serves_properties": sorted(CLAIMED), "kind_free_text": "Go harness driving the real JackalApp through ABCI with online reference-model / invariant / event-log monitors; one child process per shard; python driver ./check"},
 ],
 "checks": [],
 "not_applicable": [],
 "notes": "Family: runtime monitoring. See DESIGN.md. known_findings.json lists recorded genuine defects (status known) and repaired ones (status fixed).",
}
for p in props:
    pid = p["id"]
    if pid in CLAIMED:
        c = CLAIMED[pid]
        m["checks"].append({
            "property_id": pid,
            "quick_cmd": "./check %s --tier quick" % pid,
            "thorough_cmd": "./check %s --tier thorough" % pid,
            "evidence_file": "/verif/evidence/%s.json" % pid,
            "replay_cmd_template": "./check %s --replay {path}" % pid,
            "engine": "jkverif",
            "level_claimed": {"category": "exploration", "text": c["text"], "design_ref": c["ref"]},
            "level_note": c.get("note", TRUST),
            "technique": c["tech"],
        })
    else:
        m["not_applicable"].append({"property_id": pid, "reason": NOT_BUILT})
json.dump(m, open(os.path.join(ROOT, "MANIFEST.json"), "w"), indent=1)
print("claimed", sorted(CLAIMED))
