#!/bin/bash
# runs every mutants/<prefix>_*.diff against the check named by its prefix (c01_ -> C01); output: out/mutants.log
cd /verif
mkdir -p out
LOG=out/mutants.log
: > $LOG
for f in mutants/${1:-}*.diff; do
  p=$(basename $f | cut -d_ -f1 | tr a-z A-Z)
  tools/mutant.sh $f $p >> $LOG 2>&1
done
grep -A3 "^== " $LOG | grep "^==\|exit=" | paste - - 
