#!/bin/bash
# usage: tools/seedverify.sh <seed-dir> <n> <PROP> [<more PROPs>]
#   <seed-dir>/out/change<n>.diff, change<n>_demo_test.go (line1 "// place at: <path>", line2 "// run: <cmd>")
# Confirms in a scratch worktree of /repo HEAD: demo passes without the change, fails with it, the affected
# packages' existing tests still pass with it; then runs the given checks against the changed tree.
# Prints a JSON summary on the last line.
set -u
SD=$(readlink -f "$1"); N=$2; shift 2
export GOFLAGS=-mod=mod GOPROXY=off GOSUMDB=off GOTOOLCHAIN=local
S=/tmp/sv.$$
mkdir -p $S
git -C /repo worktree add -q --detach $S/repo HEAD || exit 2
DIFF=$SD/out/change$N.diff; DEMO=$SD/out/change${N}_demo_test.go
PLACE=$(sed -n '1s#^// place at: *##p' $DEMO | tr -d '\r' | sed 's#^\./##')
RUN=$(sed -n '2s#^// run: *##p' $DEMO | tr -d '\r')
cp $DEMO $S/repo/$PLACE
cd $S/repo
( eval "$RUN" ) > $S/demo_without.log 2>&1; W0=$?
if git apply $DIFF 2>$S/apply.err; then AP=0; else AP=1; fi
( eval "$RUN" ) > $S/demo_with.log 2>&1; W1=$?
rm -f $S/repo/$PLACE
PKGS=$(git diff --name-only | grep '\.go$' | xargs -n1 dirname | sort -u | sed 's#^#./#' | tr '\n' ' ')
go build ./... > $S/build.log 2>&1; B=$?
go test -vet=off -count=1 $PKGS > $S/unit.log 2>&1; U=$?
rsync -a --exclude .git --exclude out --exclude bin --exclude evidence /verif/ $S/verif/
RES=""
for P in "$@"; do
  (cd $S/verif && VERIF_REPO=$S/repo ./check $P --tier ${TIER:-quick} > $S/check_$P.log 2>&1); C=$?
  # exit 1 counts as a detection only with a VIOLATION line (a failed cd / fork under load must not look like one)
  if [ $C -eq 1 ] && ! grep -q "^VIOLATION property=" $S/check_$P.log; then C=2; fi
  SIGS=$(grep -o "finding-[A-Za-z0-9_.-]*" $S/check_$P.log | sed 's/finding-//; s/.json//' | sort -u | tr '\n' ',' )
  RES="$RES\"$P\":{\"exit\":$C,\"signatures\":\"$SIGS\"},"
done
echo "--- demo without change (exit $W0):"; tail -3 $S/demo_without.log
echo "--- demo with change (exit $W1):"; grep -m3 -i "fail\|error" $S/demo_with.log | cut -c1-200
echo "--- unit tests of $PKGS with change (exit $U)"; tail -3 $S/unit.log
echo "{\"apply\":$AP,\"demo_without_exit\":$W0,\"demo_with_exit\":$W1,\"build_exit\":$B,\"unit_exit\":$U,\"pkgs\":\"$PKGS\",\"place\":\"$PLACE\",\"run\":\"$(echo $RUN | sed 's/"/\\"/g')\",\"checks\":{${RES%,}}}"
cd /
git -C /repo worktree remove --force $S/repo
rm -rf $S
