#!/usr/bin/env python3
"""seedstore.py <PROP> <n> [<extra check props>...]  : verifies /tmp/seed_<PROP>/out/change<n>.* with tools/seedverify.sh
and, if confirmed (demo passes without / fails with, build + unit tests ok), stores it as /verif/seeded/<PROP>-<n>/."""
import json, os, shutil, subprocess, sys
args = [a for a in sys.argv[1:] if not a.startswith("--round=")]
rnd = 1
for a in sys.argv[1:]:
    if a.startswith("--round="):
        rnd = int(a.split("=")[1])
prop, n = args[0], args[1]
checks = [prop] + args[2:]
sd = "/tmp/seed%s_%s" % ("" if rnd == 1 else str(rnd), prop)
sid = str(int(n) + 2 * (rnd - 1))
p = subprocess.run(["/verif/tools/seedverify.sh", sd, n] + checks, capture_output=True, text=True)
out = p.stdout.strip().splitlines()
print("\n".join(out[-10:-1]))
res = json.loads(out[-1])
confirmed = res["apply"] == 0 and res["demo_without_exit"] == 0 and res["demo_with_exit"] != 0 and res["build_exit"] == 0 and res["unit_exit"] == 0
res["confirmed"] = confirmed
dst = "/verif/seeded/%s-%s" % (prop, sid)
if confirmed:
    os.makedirs(dst, exist_ok=True)
    shutil.copy(os.path.join(sd, "out", "change%s.diff" % n), os.path.join(dst, "patch.diff"))
    shutil.copy(os.path.join(sd, "out", "change%s_demo_test.go" % n), os.path.join(dst, "demo_test.go.txt"))
    md = open(os.path.join(sd, "out", "change%s.md" % n)).read() if os.path.exists(os.path.join(sd, "out", "change%s.md" % n)) else ""
    meta = {
        "id": "%s-%s" % (prop, sid), "round": rnd,
        "breaks_property": prop,
        "needs_to_manifest": md.strip(),
        "demonstration": {"file": "demo_test.go.txt", "place_at": res["place"], "run": res["run"],
                          "passes_without_change": True, "fails_with_change": True},
        "confirmed_by": "tools/seedverify.sh in a scratch worktree of /repo HEAD: git apply; go build ./...; existing tests of the touched packages (%s) pass with the change; demonstration exit %d with / %d without" % (res["pkgs"].strip(), res["demo_with_exit"], res["demo_without_exit"]),
        "checks_run": {k: {"exit": v["exit"], "detected": v["exit"] == 1, "signatures": [s for s in v["signatures"].split(",") if s]} for k, v in res["checks"].items()},
    }
    json.dump(meta, open(os.path.join(dst, "meta.json"), "w"), indent=1)
print(json.dumps({"seed": "%s-%s" % (prop, sid), "confirmed": confirmed, "checks": {k: v["exit"] for k, v in res["checks"].items()}}))
