#!/bin/bash
# usage: tools/mutant.sh <patch-file> <PROP> [<PROP>...]   (env TIER=quick|thorough)
# Applies a patch to a scratch worktree of /repo HEAD, runs the given checks of a scratch copy of /verif
# against it and removes everything again. Prints each check's verdict line(s).
set -u
PATCH=$(readlink -f "$1"); shift
S=/tmp/mut.$$
mkdir -p $S
git -C /repo worktree add -q --detach $S/repo HEAD || exit 2
if ! rsync -a --exclude .git --exclude out --exclude bin --exclude evidence /verif/ $S/verif/ || [ ! -x $S/verif/check ]; then echo "COPY OF /verif FAILED"; git -C /repo worktree remove --force $S/repo; rm -rf $S; exit 2; fi
if ! git -C $S/repo apply "$PATCH"; then echo "PATCH DOES NOT APPLY"; git -C /repo worktree remove --force $S/repo; rm -rf $S; exit 2; fi
for P in "$@"; do
  echo "== $P on mutant $(basename $PATCH)"
  (cd $S/verif || exit 2; VERIF_REPO=$S/repo ./check $P --tier ${TIER:-quick} --seed ${SEED:-1} 2>&1 | grep -v "^  finding\|^KNOWN-FINDING" | cut -c1-300 | head -12; echo "exit=${PIPESTATUS[0]}")
done
git -C /repo worktree remove --force $S/repo
rm -rf $S
