#!/bin/bash
# usage: tools/reseed.sh [ids...]   re-runs the stored seeded changes (seeded/<id>/patch.diff) against the current checks;
# every one must still be detected by the check(s) recorded in its meta.json (exit 1). Prints one line per seed.
cd /verif
IDS="$@"; [ -z "$IDS" ] && IDS=$(ls seeded)
for id in $IDS; do
  PROPS=$(python3 -c "
import json;m=json.load(open('seeded/$id/meta.json'))
print(' '.join(k for k,v in m['checks_run'].items() if v['detected']))")
  raw=$(tools/mutant.sh seeded/$id/patch.diff $PROPS 2>&1)
  out=$(echo "$raw" | grep "exit=" | tr '\n' ' ')
  nv=$(echo "$raw" | grep -c "^VIOLATION property=")
  echo "$id [$PROPS] $out violations=$nv"
done
echo RESEED-DONE
