#!/bin/bash
# Builds a Go -overlay that shifts time.Now() by $JKVERIF_TIME_SHIFT seconds (read once at start-up), so that one of
# the C06 replay processes runs with a different wall clock. Output: /verif/bin/overlay/overlay.json (or exit 1 if the
# installed Go's time.Now does not have the expected shape).
set -e
GR=$(go env GOROOT)
O=$(dirname "$(readlink -f "$0")")/../bin/overlay; mkdir -p "$O"; O=$(readlink -f "$O")
mkdir -p $O
SRC=$GR/src/time/time.go
grep -q '^	sec, nsec, mono := now()$' $SRC || { echo "time.Now has an unexpected shape"; exit 1; }
awk 'BEGIN{inNow=0} /^func Now\(\) Time \{/{inNow=1} {print} inNow && /^	sec, nsec, mono := now\(\)$/{print "	sec += verifShiftSec // jkverif overlay: shifted wall clock"; inNow=0}' $SRC > $O/time.go
cat > $O/verif_shift.go <<'EOG'
package time

import "syscall"

// verifShiftSec shifts the wall clock seen by this process (jkverif C06 overlay).
var verifShiftSec int64 = func() int64 {
	s, ok := syscall.Getenv("JKVERIF_TIME_SHIFT")
	if !ok {
		return 0
	}
	var v int64
	neg := false
	for i, ch := range s {
		if i == 0 && ch == '-' {
			neg = true
			continue
		}
		if ch < '0' || ch > '9' {
			return 0
		}
		v = v*10 + int64(ch-'0')
	}
	if neg {
		v = -v
	}
	return v
}()
EOG
cat > $O/overlay.json <<EOG
{"Replace": {"$SRC": "$O/time.go", "$GR/src/time/verif_shift.go": "$O/verif_shift.go"}}
EOG
echo $O/overlay.json
