#!/usr/bin/env python3
"""mkmut.py <name> <repo-relative-file> <old> <new>  -> /verif/mutants/<name>.diff (against /repo HEAD working tree)"""
import sys, subprocess, os, tempfile
name, rel, old, new = sys.argv[1:5]
src = open(os.path.join('/repo', rel)).read()
old = old.encode().decode('unicode_escape'); new = new.encode().decode('unicode_escape')
assert src.count(old) == 1, "pattern occurs %d times" % src.count(old)
tmp = tempfile.mkdtemp()
os.makedirs(os.path.join(tmp, 'a', os.path.dirname(rel)), exist_ok=True)
os.makedirs(os.path.join(tmp, 'b', os.path.dirname(rel)), exist_ok=True)
open(os.path.join(tmp, 'a', rel), 'w').write(src)
open(os.path.join(tmp, 'b', rel), 'w').write(src.replace(old, new))
d = subprocess.run(['diff', '-u', os.path.join('a', rel), os.path.join('b', rel)], cwd=tmp, capture_output=True, text=True).stdout
open('/verif/mutants/%s.diff' % name, 'w').write(d)
print(name, len(d.splitlines()), 'lines')
