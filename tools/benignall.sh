#!/bin/bash
# usage: tools/benignall.sh <dir-with-benign*.diff> ...   -> runs EVERY claimed check (quick) against each benign diff; expects exit 0
cd /verif
ALL=$(python3 -c "import json;print(' '.join(c['property_id'] for c in json.load(open('MANIFEST.json'))['checks']))")
for d in "$@"; do
  for f in $d/*.diff; do
    echo "#### $f"
    tools/mutant.sh $f $ALL 2>&1 | grep "^== \|exit=\|VIOLATION\|INCONCL\|PATCH" | paste -s -d' ' | sed 's/== /\n== /g' | grep -v "exit=0$" | grep -v "^$"
  done
done
