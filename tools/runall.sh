#!/bin/bash
# usage: tools/runall.sh [quick|thorough] [seed]   -> runs every claimed check, prints one line per check
cd /verif
TIER=${1:-quick}; SEED=${2:-1}
for p in $(python3 -c "import json;print(' '.join(c['property_id'] for c in json.load(open('MANIFEST.json'))['checks']))"); do
  s=$(date +%s)
  out=$(./check $p --tier $TIER --seed $SEED 2>&1); rc=$?
  echo "$p exit=$rc $(($(date +%s)-s))s :: $(echo "$out" | grep -v '^KNOWN-FINDING\|^  finding' | head -3 | tr '\n' ' ' | cut -c1-230) known=$(echo "$out" | grep -c '^KNOWN-FINDING')"
done
