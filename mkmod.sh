#!/bin/bash
# Generates harness/go.mod + go.sum from /repo/go.mod (requires + replace block) so the harness always
# builds against /repo's current working tree.
set -e
REPO=${VERIF_REPO:-/repo}
H=$(dirname "$(readlink -f "$0")")/harness
TMP=$(mktemp)
{
  echo "module jkverif"
  echo
  echo "go 1.22.2"
  echo
  echo "require github.com/jackalLabs/canine-chain/v4 v4.0.0"
  echo
  # copy all require blocks so that indirect versions are pinned identically
  awk '/^require \(/{p=1} p{print} /^\)/{if(p){p=0; print ""}}' "$REPO/go.mod"
  awk '/^replace \(/{p=1} p{print} /^\)/{if(p){p=0}}' "$REPO/go.mod" | sed '$d'
  echo "	github.com/jackalLabs/canine-chain/v4 => $REPO"
  echo ")"
} > "$TMP"
if ! cmp -s "$TMP" "$H/go.mod"; then cp "$TMP" "$H/go.mod"; fi
rm -f "$TMP"
if ! cmp -s "$REPO/go.sum" "$H/go.sum"; then cp "$REPO/go.sum" "$H/go.sum"; fi
