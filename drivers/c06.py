#!/usr/bin/env python3
"""C06 driver: determinism across independent executions.

Process A (plain environment) runs generated histories against the real app and records, per consensus call,
the payload (genesis, headers, signed tx bytes) and a digest of what the app answered (AppHash, tx code/gas/data,
ordered events). Process B (fresh OS process: new map seeds; GOMAXPROCS=2, GOGC=1; extra serialised CheckTx / Query /
Simulate calls sprinkled between consensus calls) re-executes the payloads on a fresh app. In the thorough tier process
C does the same under the Go race detector. Any digest that differs is a violation; the replay file is the trace.
"""
import glob, json, os, re, subprocess, sys, time, shutil

ROOT = os.environ["VERIF_ROOT"]
BIN = os.environ["VERIF_BIN"]
TIER = os.environ.get("VERIF_TIER", "quick")
SEED = int(os.environ.get("VERIF_SEED", "1"))
REPLAY = os.environ.get("VERIF_REPLAY", "")
NSH = min(16, os.cpu_count() or 4)
KNOWN_GAS_SIG = "C06/diverged/gas-of-stateless-rejected-tx-in-first-block-after-restart"


def run_shards(cmd_base, env, logprefix, wd):
    procs = []
    for i in range(NSH):
        lf = open("%s-%d.log" % (logprefix, i), "w")
        cmd = ["timeout", "-s", "QUIT", str(wd)] + cmd_base + ["-shard", str(i), "-nshards", str(NSH)]
        lf.write("+ " + " ".join(cmd) + "\n")
        lf.flush()
        procs.append((subprocess.Popen(cmd, stdout=lf, stderr=subprocess.STDOUT, env=env), lf))
    rcs = []
    for p, lf in procs:
        rcs.append(p.wait())
        lf.close()
    return rcs


def main():
    t0 = time.time()
    if REPLAY:
        ok = True
        for il, rs, cr in (("0", "0", "0"), ("0.5", "0", "0"), ("0.5", "0.3", "0"), ("0", "1", "0"), ("0.3", "0.2", "0.1")):
            p = subprocess.run([BIN, "c06replay", "-file", REPLAY, "-interleave", il, "-restart", rs, "-crash", cr, "-seed", str(SEED)], env=dict(os.environ, GOGC="1", GOMAXPROCS="2"))
            ok = ok and p.returncode == 0
        if not ok:
            print("VIOLATION property=C06 replay=%s" % os.path.abspath(REPLAY))
            return 1
        return 0
    n = 96 if TIER == "quick" else 2400
    outdir = os.path.join(ROOT, "out", "C06", "%s-%d" % (TIER, SEED))
    shutil.rmtree(outdir, ignore_errors=True)
    os.makedirs(outdir)
    wd = 1500 if TIER == "quick" else 3 * 3600
    inconclusive = []
    base_env = dict(os.environ)
    # A: record
    rcs = run_shards([BIN, "c06record", "-seed", str(SEED), "-n", str(n), "-dir", outdir], base_env, os.path.join(outdir, "record"), wd)
    if any(rcs):
        inconclusive.append("a recording worker exited with %s" % [r for r in rcs if r])
    # B: fresh processes, different scheduler/GC settings, interleaved non-consensus calls, and a wall clock shifted by
    # ~98 days (binary built with a Go -overlay that adds $JKVERIF_TIME_SHIFT seconds inside time.Now)
    envB = dict(base_env, GOMAXPROCS="2", GOGC="1", TZ="America/New_York")  # a zone with daylight saving; process A runs in the sandbox's zone
    binB = BIN
    clock_shift = False
    go_env = dict(base_env, GOFLAGS="-mod=mod", GOPROXY="off", GOSUMDB="off", GOTOOLCHAIN="local")
    ov = subprocess.run([os.path.join(ROOT, "tools", "mkoverlay.sh")], env=go_env, stdout=subprocess.PIPE, stderr=subprocess.STDOUT, text=True)
    if ov.returncode == 0:
        shiftbin = BIN + ".shift"
        p = subprocess.run(["go", "build", "-tags", "verif", "-overlay", os.path.join(ROOT, "bin", "overlay", "overlay.json"), "-o", shiftbin, "./cmd/jkverif"],
                           cwd=os.path.join(ROOT, "harness"), env=go_env, stdout=subprocess.PIPE, stderr=subprocess.STDOUT, text=True)
        if p.returncode == 0:
            binB = shiftbin
            clock_shift = True
            envB["JKVERIF_TIME_SHIFT"] = "8467261"
        else:
            print("NOTE: clock-shifted replay binary could not be built, process B runs with the normal clock: " + p.stdout[-300:])
    else:
        print("NOTE: time.Now overlay could not be prepared, process B runs with the normal clock: " + ov.stdout[-300:])
    rcs = run_shards([binB, "c06replay", "-seed", str(SEED), "-n", str(n), "-dir", outdir, "-suffix", "B", "-interleave", "0.4", "-restart", "0.12", "-crash", "0.03"], envB, os.path.join(outdir, "replayB"), wd)
    if any(rcs):
        inconclusive.append("a replay-B worker exited with %s" % [r for r in rcs if r])
    suffixes = ["B"]
    races = {"canine": [], "dependency": 0, "total": 0}
    if TIER == "thorough":
        # C: race detector build
        racebin = BIN + ".race"
        p = subprocess.run(["go", "build", "-tags", "verif", "-race", "-o", racebin, "./cmd/jkverif"], cwd=os.path.join(ROOT, "harness"), env=go_env,
                           stdout=subprocess.PIPE, stderr=subprocess.STDOUT, text=True)
        if p.returncode != 0:
            inconclusive.append("race build failed: " + p.stdout[-400:])
        else:
            envC = dict(base_env, GOMAXPROCS="4", TZ="Australia/Lord_Howe", GORACE="halt_on_error=0 log_path=%s" % os.path.join(outdir, "race"))
            rcs = run_shards([racebin, "c06replay", "-seed", str(SEED + 1000), "-n", str(n), "-dir", outdir, "-suffix", "C", "-interleave", "0.3", "-restart", "0.05", "-crash", "0.02"], envC, os.path.join(outdir, "replayC"), wd)
            if any(rcs):
                inconclusive.append("a replay-C (race) worker exited with %s" % [r for r in rcs if r])
            suffixes.append("C")
            for f in glob.glob(os.path.join(outdir, "race.*")):
                txt = open(f).read()
                for blk in txt.split("WARNING: DATA RACE")[1:]:
                    races["total"] += 1
                    # access frames = first frame after "Read at"/"Write at"/"Previous ..." lines
                    acc = re.findall(r"(?:Read|Write|Previous read|Previous write|Previous atomic \w+|Atomic \w+) at [^\n]*\n\s+([^\n]+)\n", blk)
                    if any("jackalLabs/canine-chain" in a for a in acc):
                        races["canine"].append(blk[:1500])
                    else:
                        races["dependency"] += 1

    # compare
    known = {}
    try:
        for kf in json.load(open(os.path.join(ROOT, "known_findings.json")))["findings"]:
            if kf.get("property") == "C06" and kf.get("status") == "known":
                known[kf["signature"]] = kf
    except Exception as e:
        print("NOTE: known_findings.json unreadable: %s" % e)
    known_hits = {}
    known_count = [0]
    stats = {}
    evaluations = 0
    sigs = set()
    samples = []
    violations = []
    compared_steps = 0
    for k in range(n):
        tf = os.path.join(outdir, "trace-%d.json" % k)
        mf = os.path.join(outdir, "meta-%d.json" % k)
        if not os.path.exists(tf) or not os.path.exists(mf):
            inconclusive.append("history %d was not recorded" % k)
            continue
        meta = json.load(open(mf))
        rec = json.load(open(tf)) or []
        if meta["txs"] == 0:
            continue
        okcase = True
        for sfx in suffixes:
            df = os.path.join(outdir, "digest-%d-%s.json" % (k, sfx))
            if not os.path.exists(df):
                inconclusive.append("history %d has no %s digests" % (k, sfx))
                okcase = False
                continue
            dig = json.load(open(df))
            evaluations += 1
            for chd in dig:
                for st in chd[-1:]:
                    if st.get("op") == "stats":
                        m = re.findall(r"(\w+)=(\d+)", st.get("i", ""))
                        for kk, vv in m:
                            stats[kk] = stats.get(kk, 0) + int(vv)
            for ci, ch in enumerate(rec):
                out = dig[ci] if ci < len(dig) else []
                for i, op in enumerate(ch):
                    if op["op"] == "init":
                        continue
                    compared_steps += 1
                    got = out[i] if i < len(out) else {"op": "missing"}
                    if (got.get("op") != "error" and got.get("d") != op.get("d") and op.get("d2") and got.get("d2") == op.get("d2")
                            and got.get("cls") == "stateless-reject/first-block-after-restart"):
                        # everything but GasUsed agrees, the transaction is rejected by ValidateBasic (never reaches the
                        # ante handler) and the instance was started at the previous Commit: the listed finding. The
                        # application state is not affected, so the comparison of this history goes on.
                        known_hits.setdefault(KNOWN_GAS_SIG, (k, "history %d (source %s case %d) chain %d step %d tx h=%s: process A observed %s, restarted process %s observed %s" % (
                            k, meta["source"], meta["src_case"], ci, i, op.get("h"), op.get("i", ""), sfx, got.get("i", "")), tf))
                        known_count[0] += 1
                        continue
                    if got.get("op") == "error" or got.get("d") != op.get("d"):
                        violations.append((k, "%s/%s" % (sfx, op["op"]), "history %d (source %s case %d) chain %d step %d %s h=%s: process A observed %s (%s), process %s observed %s (%s)" % (
                            k, meta["source"], meta["src_case"], ci, i, op["op"], op.get("h"), op.get("d"), op.get("i", ""), sfx, got.get("d"), got.get("i", "")), tf))
                        okcase = False
                        break
                if not okcase:
                    break
        sigs.add(meta["signature"])
        if len(samples) < 2:
            samples.append({k2: meta[k2] for k2 in ("case", "source", "src_case", "chains", "txs", "blocks", "msg_types", "max_paid")})

    nontriv = sorted(s for s in sigs if "/paid>=3/" in s or int(re.search(r"types=(\d+)", s).group(1)) >= 6)
    first = {}
    for k, where, detail, tf in violations:
        first.setdefault(where, (k, detail, tf))
    for sig, (k, detail, tf) in known_hits.items():
        if sig not in known:
            first.setdefault(sig.split("/", 2)[2], (k, detail, tf))
    for blk in races["canine"]:
        first.setdefault("race", (-1, "data race with an access frame inside canine-chain:\n" + blk, os.path.join(outdir, "race.*")))
    if len(nontriv) < 8 and not first:
        inconclusive.append("only %d non-trivial histories" % len(nontriv))
    wall = time.time() - t0
    ev = {
        "property_id": "C06", "tier": TIER, "seed": SEED, "level": "exploration",
        "coverage": {
            "evaluations": evaluations,
            "distinct_nontrivial": len(nontriv),
            "rule": "history = one generated workload (dedicated generator X06 maximising provers / gauges / access-map ids / form shuffles per block, plus the generators of every other property except C11 (its contract family calls the wasm plug-in boundary directly, outside ABCI) and C20 in record-only mode) recorded as genesis + headers + signed tx bytes; "
                    "evaluation = one re-execution in an independent OS process (B: GOMAXPROCS=2, GOGC=1, wall clock shifted by +98 days through a time.Now overlay, local time zone America/New_York (process C: Australia/Lord_Howe), serialised CheckTx/Recheck/Query/Simulate calls interleaved with probability 0.4 between consensus calls, the recorded simulate-only transactions (feed update + purchase in one transaction, never delivered) executed, with probability 0.12 per Commit the node restarted (a new application instance opened on the same database), and with probability 0.03 per in-block call the node crashed, i.e. the open block was lost and executed again from BeginBlock by a new instance; thorough adds C: race-detector build) compared step by step with process A on AppHash, tx code/codespace/gas/data and the ordered event lists of BeginBlock/DeliverTx/EndBlock; "
                    "non-trivial = distinct (source, message-type set) histories that paid >=3 provers in one reward block or used >=6 message types",
            "samples": samples or [{"note": "none"}],
            "histories": n,
            "steps_compared": compared_steps,
            "executions_per_history": 1 + len(suffixes),
            "process_B_wall_clock_shifted": clock_shift,
            "race_reports_total": races["total"],
            "race_reports_dependency_only": races["dependency"],
            "race_reports_in_canine_chain": len(races["canine"]),
            "nontrivial_signatures": nontriv[:100],
            "inconclusive": inconclusive,
            "known_findings_reobserved": sorted(s for s in known_hits if s in known),
            "known_finding_steps": known_count[0],
            "node_restarts_in_reexecutions": stats.get("restarts", 0),
            "mid_block_crashes_in_reexecutions": stats.get("crashes", 0),
        },
        "assumptions": [
            "Tendermint 0.34's local ABCI client serialises all connections, so truly concurrent ABCI calls are not generated; the legitimate schedule dimension is the order of serialised calls plus process-level differences",
            "tx Log strings are excluded (not consensus data; recovered panics embed stack addresses)",
        ],
        "wall_s": round(wall, 2),
        "violations": len(first),
    }
    os.makedirs(os.path.join(ROOT, "evidence"), exist_ok=True)
    json.dump(ev, open(os.path.join(ROOT, "evidence", "C06.json"), "w"), indent=1)
    print("C06 tier=%s seed=%d: %d histories, %d re-executions, %d steps compared, %d distinct non-trivial, races: %d (in canine-chain: %d), %.1fs" % (
        TIER, SEED, n, evaluations, compared_steps, len(nontriv), races["total"], len(races["canine"]), wall))
    for sig, (k, detail, tf) in sorted(known_hits.items()):
        if sig in known:
            print("KNOWN-FINDING: property=C06 %s %s" % (sig, known[sig].get("what", detail)[:300]))
    for where, (k, detail, tf) in sorted(first.items()):
        print("  finding C06/diverged/%s: %s" % (where, detail[:800]))
        print("VIOLATION property=C06 replay=%s" % tf)
    if first:
        return 1
    if inconclusive:
        for x in inconclusive:
            print("INCONCLUSIVE: " + x)
        return 3
    return 0


if __name__ == "__main__":
    sys.exit(main())
