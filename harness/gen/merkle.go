// Package gen holds workload generators and the honest / dishonest storage
// provider implementations.
package gen

import (
	"crypto/sha256"
	"encoding/hex"
	"encoding/json"
	"fmt"

	"golang.org/x/crypto/sha3"
)

// File is the client-side view of a stored file: raw bytes cut into chunks and
// an independently built Merkle tree (leaf = sha3-512(sha256(dec(index) ||
// hex(chunk))), inner = sha3-512(left || right), leaves padded with zero
// hashes to a power of two) -- written from the protocol description, not
// using the repository's BuildTree or the go-merkletree library.
type File struct {
	Data      []byte
	ChunkSize int64
	Chunks    [][]byte
	levels    [][][]byte // levels[0] = padded leaves ... levels[last] = [root]
}

func h512(parts ...[]byte) []byte {
	h := sha3.New512()
	for _, p := range parts {
		h.Write(p)
	}
	return h.Sum(nil)
}

// LeafData is the pre-image committed to for chunk i.
func LeafData(i int64, chunk []byte) []byte {
	s := sha256.Sum256([]byte(fmt.Sprintf("%d%s", i, hex.EncodeToString(chunk))))
	return s[:]
}

func NewFile(data []byte, chunkSize int64) *File {
	f := &File{Data: data, ChunkSize: chunkSize}
	for off := int64(0); off < int64(len(data)); off += chunkSize {
		end := off + chunkSize
		if end > int64(len(data)) {
			end = int64(len(data))
		}
		f.Chunks = append(f.Chunks, data[off:end])
	}
	n := len(f.Chunks)
	width := 1
	for width < n {
		width *= 2
	}
	leaves := make([][]byte, width)
	for i := range leaves {
		if i < n {
			leaves[i] = h512(LeafData(int64(i), f.Chunks[i]))
		} else {
			leaves[i] = make([]byte, 64)
		}
	}
	f.levels = [][][]byte{leaves}
	cur := leaves
	for len(cur) > 1 {
		next := make([][]byte, len(cur)/2)
		for i := range next {
			next[i] = h512(cur[2*i], cur[2*i+1])
		}
		f.levels = append(f.levels, next)
		cur = next
	}
	return f
}

func (f *File) Root() []byte   { return f.levels[len(f.levels)-1][0] }
func (f *File) Size() int64    { return int64(len(f.Data)) }
func (f *File) NChunks() int64 { return int64(len(f.Chunks)) }

// ProofJSON is the wire form of a Merkle path.
type ProofJSON struct {
	Hashes [][]byte
	Index  uint64
}

// Proof returns (item, hashList) an honest holder submits for chunk idx.
func (f *File) Proof(idx int64) ([]byte, []byte) {
	p := ProofJSON{Index: uint64(idx), Hashes: [][]byte{}}
	i := idx
	for l := 0; l < len(f.levels)-1; l++ {
		p.Hashes = append(p.Hashes, f.levels[l][i^1])
		i >>= 1
	}
	bz, _ := json.Marshal(p)
	return f.Chunks[idx], bz
}

// RefVerify is the reference verifier: does hashList prove that `item` is
// chunk number idx under root?
func RefVerify(root []byte, idx int64, item []byte, hashList []byte) bool {
	var p ProofJSON
	if err := json.Unmarshal(hashList, &p); err != nil {
		return false
	}
	if len(p.Hashes) > 62 {
		return false
	}
	cur := h512(LeafData(idx, item))
	pos := p.Index + (uint64(1) << uint(len(p.Hashes)))
	for _, h := range p.Hashes {
		if pos%2 == 0 {
			cur = h512(cur, h)
		} else {
			cur = h512(h, cur)
		}
		pos >>= 1
	}
	return string(cur) == string(root)
}
