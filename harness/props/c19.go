package props

import (
	"crypto/sha256"
	"encoding/json"
	"fmt"
	"sort"
	"strings"
	"time"

	sdk "github.com/cosmos/cosmos-sdk/types"

	"jkverif/chain"
	"jkverif/gen"

	filetreetypes "github.com/jackalLabs/canine-chain/v4/x/filetree/types"
	minttypes "github.com/jackalLabs/canine-chain/v4/x/jklmint/types"
	notiftypes "github.com/jackalLabs/canine-chain/v4/x/notifications/types"
	oracletypes "github.com/jackalLabs/canine-chain/v4/x/oracle/types"
	rnstypes "github.com/jackalLabs/canine-chain/v4/x/rns/types"
	storagetypes "github.com/jackalLabs/canine-chain/v4/x/storage/types"
)

// C19 – exporting and re-importing genesis preserves every custom module's state.
//
// One case = one generated history of real transactions that populates every
// record kind of the six custom modules, followed by the round trip
//
//	S  --ExportAppStateAndValidators-->  G1  --ValidateGenesis, InitChain on a fresh app-->  S'
//
// and the comparisons, all taken on S' BEFORE any block is executed on it:
//
//	raw KV of the six stores:  S  vs S'          (lost / changed / extra, per store and key prefix)
//	gRPC answers:              S  vs S'          (a query that answered on S must answer the same on S')
//	genesis:                   G1 vs G2 = the six modules' ExportGenesis applied to S'  (per module and field)
//
// Why before the block: a block legitimately changes module state (jklmint
// records the emission of the new height, a storage reward block moves gauge
// money), and once a record kind has been lost the two chains no longer execute
// the same block, so an "equal extra block on both sides" comparison would
// report consequences of a loss under unstable signatures. Immediately after
// InitChain the imported state is at rest in the deliver state and is exactly
// InitGenesis(G1); comparing there isolates export+import. The application's
// ExportAppStateAndValidators can only read committed state, therefore G2 is
// produced by calling the same six module ExportGenesis functions it calls, on
// the deliver-state context (a self-check asserts that on S this reproduces the
// custom sections of G1 byte for byte). One block is then executed on S' and
// the real ExportAppStateAndValidators + ValidateGenesis are run on it as a
// liveness check (panic / error = finding), without comparing its content.

func init() {
	Register(&Prop{
		ID:    "C19",
		Title: "Exporting and re-importing genesis preserves every custom module's state",
		Cases: func(t string) int { return tierN(t, 20, 3000) },
		Run:   runC19,
		Rule: "case = one generated history (40-90 real signed transactions over 8-30 blocks with random block times; storage/mint parameters drawn per case) followed by export -> ValidateGenesis -> InitChain on a fresh app -> comparison before any block; " +
			"a state is non-trivial iff the raw KV dump of the source chain holds >= 1 record under each of the 20 record kinds the current code writes " +
			"(storage: FilesByMerkle, FilesByOwner, FileProof, Providers, Collateral, StoragePaymentInfo, PaymentGauge, Attestation, Report; rns: Names, PrimaryName, Bids, Forsale, Init; filetree: Files, Pubkey; oracle: Feed; notifications: Notification, Block; jklmint: MintedBlock); " +
			"signature = the per-kind record-count vector; evaluations = KV keys compared + queries compared + genesis fields compared + modules validated",
		Assumptions: []string{
			"the restored chain is started the way Tendermint starts a node from an exported genesis file: InitialHeight = exported height, validator set and consensus params from the export, genesis time = last block time of the source",
			"state is compared immediately after InitChain (deliver state), i.e. before any block runs on the restored chain; 'exporting again' = the six modules' own ExportGenesis on that state (ExportAppStateAndValidators can only read committed state)",
			"queries that consult block height/time are evaluated under the source's last header on both sides; the ActiveProviders answer is compared as a set (the handler shuffles it with a height-seeded PRNG)",
			"an absent/null list and an empty list in the genesis JSON are the same genesis",
			"a query that failed before export is not required to fail afterwards (the statement only covers records readable before)",
		},
		MinNonTriv: 15,
	})
}

func c19Hex(s string) string { return fmt.Sprintf("%x", sha256.Sum256([]byte(s))) }

type c19World struct {
	rc     *RunCtx
	c      *chain.Chain
	s      *SW
	nUser  int
	provs  []int // account indices of providers
	txs    int
	failed int
	dayJ   int
	// records deliberately written with a string that is not valid UTF-8 (module label -> raw store key),
	// and the keys under which the JSON genesis will re-create them
	poisoned    map[string]map[string]bool
	poisonExtra map[string]map[string]bool
}

func (w *c19World) poison(module, key, reimportedKey string) {
	if w.poisoned[module] == nil {
		w.poisoned[module] = map[string]bool{}
		w.poisonExtra[module] = map[string]bool{}
	}
	w.poisoned[module][key] = true
	if reimportedKey != key {
		w.poisonExtra[module][reimportedKey] = true
	}
}

func (w *c19World) tx(i int, what string, msgs ...sdk.Msg) chain.TxResult {
	r := w.c.DeliverAs(i, msgs...)
	w.txs++
	w.rc.Count("tx_"+what, 1)
	if !r.OK() {
		w.failed++
		w.rc.Count("txfail_"+what, 1)
		w.rc.Logf("h=%d tx %s by acc%d FAILED code=%d: %s", w.c.Height, what, i, r.Code, c19Short(r.Log, 160))
	} else {
		w.rc.Logf("h=%d tx %s by acc%d ok", w.c.Height, what, i)
	}
	return r
}

func (w *c19World) bech(i int) string { return w.c.Accs[i].Bech }

func (w *c19World) nextBlock() error {
	dts := []time.Duration{6 * time.Second, 6 * time.Second, 6*time.Second + 123456789*time.Nanosecond, 5*time.Second + time.Microsecond, time.Minute, time.Hour + 999*time.Millisecond}
	dt := dts[w.rc.Intn(len(dts))]
	if w.dayJ < 5 && w.rc.Chance(0.12) {
		dt = 24 * time.Hour
		w.dayJ++
	}
	_, err := w.c.NextBlock(dt)
	return err
}

func c19JSON(rc *RunCtx) string {
	words := []string{"alpha", "beta", "gamma", "δelta", "a b", "x\"y", "1", ""}
	m := map[string]interface{}{}
	for i := 0; i < rc.Intn(4); i++ {
		m[fmt.Sprintf("k%d", rc.Intn(10))] = words[rc.Intn(len(words))]
	}
	if rc.Chance(0.3) {
		m["n"] = rc.Intn(1000000)
	}
	b, _ := json.Marshal(m)
	return string(b)
}

func runC19(rc *RunCtx) {
	// ------------------------------------------------------------ configuration of this case
	nUser := 4
	nProv := 3 + rc.Intn(4)
	formSize := int64(1 + rc.Intn(minInt(3, nProv-2)))
	minPass := int64(1 + rc.Intn(int(formSize)))
	chunk := rc.Pick([]int64{16, 64, 1024})
	W := rc.Pick([]int64{50, 200, 7200})
	C := rc.Pick([]int64{3, 4, 7, 100})
	sp := storageParams(W, C, chunk)
	sp.AttestFormSize = formSize
	sp.AttestMinToPass = minPass
	sp.CollateralPrice = rc.Pick([]int64{2, 1000, 10_000_000_000})
	sp.PolRatio = int64(rc.Intn(41))
	sp.ReferralCommission = int64(rc.Intn(26))
	if rc.Chance(0.3) { // zero is a legitimate governance value (and indistinguishable from "absent" in proto3 / JSON)
		if rc.Chance(0.5) {
			sp.PolRatio = 0
		} else {
			sp.ReferralCommission = 0
		}
	}
	sp.PricePerTbPerMonth = rc.Pick([]int64{8, 15, 1})
	sp.MissesToBurn = int64(1 + rc.Intn(3))
	stipend := sdk.AccAddress([]byte("stipend-account-xyz!")).String()
	mp := minttypes.NewParams("ujkl", int64(rc.Intn(20)), rc.Pick([]int64{4_200_000, 1_000_000, 10, 123_456_789}), int64(40+rc.Intn(41)),
		rc.Pick([]int64{0, 6, 10_512_000, 5_256_000 * 1000}), stipend, int64(rc.Intn(13)))
	govCase := rc.Chance(0.3)
	c19cfg := chain.Config{Seed: rc.Seed*1000 + int64(rc.Case), NAcc: nUser + nProv, Storage: sp, Mint: &mp}
	if govCase {
		c19cfg.GovVotingSeconds = 10
	}
	c, err := chain.New(c19cfg)
	if err != nil {
		rc.Abort("init: " + err.Error())
		return
	}
	defer c.Close()
	w := &c19World{rc: rc, c: c, s: &SW{rc: rc, c: c}, nUser: nUser, poisoned: map[string]map[string]bool{}, poisonExtra: map[string]map[string]bool{}}
	// every fourth case two free-form strings carry bytes that are not valid UTF-8 (a signed transaction may contain them)
	hostile := rc.Case%4 == 3
	scale := 1 // the thorough tier also visits larger states
	if rc.Tier == "thorough" && rc.Chance(0.3) {
		scale = 2 + rc.Intn(2)
	}
	for i := 0; i < nProv; i++ {
		w.provs = append(w.provs, nUser+i)
	}
	rc.Logf("users=%d providers=%d formSize=%d minPass=%d chunk=%d W=%d C=%d collateral=%d mint=%+v", nUser, nProv, formSize, minPass, chunk, W, C, sp.CollateralPrice, mp)

	// ------------------------------------------------------------ per-module action queues
	var qStorage, qRns, qTree, qOracle, qNotif []func()

	// ---- storage
	shareDomain := nProv >= 4 && rc.Chance(0.4) // two providers behind one domain (they cannot attest for each other)
	for k, p := range w.provs {
		k, p := k, p
		qStorage = append(qStorage, func() {
			dom := k
			if shareDomain && k == 1 {
				dom = 0
			}
			w.tx(p, "storage.InitProvider", &storagetypes.MsgInitProvider{Creator: w.bech(p), Ip: fmt.Sprintf("https://node%d.dom%d.example:%d", k, dom, 3000+rc.Intn(1000)),
				Keybase: fmt.Sprintf("kb%d", rc.Intn(100)), TotalSpace: int64(1+rc.Intn(1000)) * 1_000_000_000})
		})
	}
	nPlans := 1 + rc.Intn(3)
	for u := 0; u < nPlans; u++ {
		u := u
		qStorage = append(qStorage, func() {
			ref := ""
			if rc.Chance(0.3) {
				ref = w.bech((u + 1) % nUser)
			}
			buyer := u
			if rc.Chance(0.25) {
				buyer = (u + 1) % nUser // bought for somebody else
			}
			msg := &storagetypes.MsgBuyStorage{Creator: w.bech(buyer), ForAddress: w.bech(u),
				DurationDays: int64(30 + rc.Intn(700)), Bytes: int64(1+rc.Intn(4000)) * 1_000_000_000, PaymentDenom: "ujkl", Referral: ref}
			if r := w.tx(buyer, "storage.BuyStorage", msg); !r.OK() && ref != "" {
				// referred purchases fail for many (PolRatio, ReferralCommission) pairs on this tree (C04 territory); the plan is needed, buy it unreferred
				msg.Referral = ""
				w.tx(buyer, "storage.BuyStorage", msg)
			}
		})
	}
	if rc.Chance(0.5) {
		// two or three purchases with identical size and duration in one block (equal coins, equal end time): each is a
		// gauge of its own and has to survive the round trip as such
		qStorage = append(qStorage, func() {
			days, bytes := int64(30+rc.Intn(700)), int64(1+rc.Intn(4000))*1_000_000_000
			n := 2 + rc.Intn(2)
			for k := 0; k < n; k++ {
				// bought for addresses that hold no plan yet, so that the prices (and with them the gauge coins) are equal
				b := k % nUser
				ben := sdk.AccAddress([]byte(fmt.Sprintf("c19-beneficiary-%02d--", k))).String()
				w.tx(b, "storage.BuyStorage", &storagetypes.MsgBuyStorage{Creator: w.bech(b), ForAddress: ben, DurationDays: days, Bytes: bytes, PaymentDenom: "ujkl"})
			}
			rc.Count("equal_purchases_in_one_block", 1)
		})
	}
	if rc.Chance(0.6) {
		// role overlap: a registered provider is also a storage customer (same address under two record kinds)
		pv := w.provs[rc.Intn(len(w.provs))]
		qStorage = append(qStorage, func() {
			w.tx(pv, "storage.BuyStorage", &storagetypes.MsgBuyStorage{Creator: w.bech(pv), ForAddress: w.bech(pv),
				DurationDays: int64(30 + rc.Intn(300)), Bytes: int64(1+rc.Intn(50)) * 1_000_000_000, PaymentDenom: "ujkl"})
		})
	}
	nFiles := (2 + rc.Intn(3)) * scale
	proversOf := map[*WFile][]int{}
	var files []*WFile
	for fi := 0; fi < nFiles; fi++ {
		fi := fi
		qStorage = append(qStorage, func() {
			f := gen.NewFile(randBytes(rc.Rng, int64(1+rc.Intn(6000))), chunk)
			owner := rc.Intn(nPlans)
			expires := int64(0)
			if fi == 1 || (fi > 1 && rc.Chance(0.4)) { // pay-once file; any user
				owner = rc.Intn(nUser)
				expires = c.Height + 14400*int64(1+rc.Intn(300)) + int64(rc.Intn(14400))
			}
			maxp := int64(1 + rc.Intn(nProv))
			if fi == 0 {
				maxp = int64(nProv) // every provider proves the first file, so all are "active"
			}
			wf, r := w.s.PostFile(owner, f, maxp, expires, -1)
			w.txs++
			rc.Count("tx_storage.PostFile", 1)
			if !r.OK() {
				w.failed++
				rc.Logf("h=%d storage.PostFile by acc%d FAILED: %s", c.Height, owner, c19Short(r.Log, 160))
				return
			}
			rc.Logf("h=%d storage.PostFile by acc%d ok size=%d maxProofs=%d expires=%d", c.Height, owner, f.Size(), maxp, expires)
			files = append(files, wf)
			perm := rc.Rng.Perm(nProv)
			n := 1 + rc.Intn(int(maxp))
			if fi == 0 {
				n = nProv
			}
			for _, k := range perm[:n] {
				p := w.provs[k]
				pr := w.s.ProveHonest(p, wf)
				w.txs++
				rc.Count("tx_storage.PostProof", 1)
				if pr.Success {
					proversOf[wf] = append(proversOf[wf], p)
				} else {
					w.failed++
					rc.Logf("h=%d storage.PostProof by acc%d NOT accepted: %s", c.Height, p, c19Short(pr.ErrMsg, 160))
				}
			}
		})
	}
	// later proofs of already-proving providers (moves LastProven / ChunkToProve)
	for i := 0; i < (1+rc.Intn(4))*scale; i++ {
		qStorage = append(qStorage, func() {
			if len(files) == 0 {
				return
			}
			wf := files[rc.Intn(len(files))]
			if len(proversOf[wf]) == 0 {
				return
			}
			p := proversOf[wf][rc.Intn(len(proversOf[wf]))]
			pr := w.s.ProveHonest(p, wf)
			w.txs++
			rc.Count("tx_storage.PostProof", 1)
			rc.Logf("h=%d storage.PostProof (again) by acc%d success=%v", c.Height, p, pr.Success)
		})
	}
	pickProven := func() (*WFile, int, bool) {
		var cand []*WFile
		for _, f := range files {
			if len(proversOf[f]) > 0 {
				cand = append(cand, f)
			}
		}
		if len(cand) == 0 {
			return nil, 0, false
		}
		f := cand[rc.Intn(len(cand))]
		return f, proversOf[f][rc.Intn(len(proversOf[f]))], true
	}
	var attested []struct {
		f *WFile
		p int
		n []string
	}
	for i := 0; i < 1+rc.Intn(2); i++ {
		qStorage = append(qStorage, func() {
			for try := 0; try < 6; try++ {
				f, p, ok := pickProven()
				if !ok {
					return
				}
				r := w.tx(p, "storage.RequestAttestationForm", &storagetypes.MsgRequestAttestationForm{Creator: w.bech(p), Merkle: f.F.Root(), Owner: f.OwnerAddr, Start: f.Start})
				var resp storagetypes.MsgRequestAttestationFormResponse
				if r.OK() && r.MsgResponse(0, &resp) == nil && resp.Success {
					attested = append(attested, struct {
						f *WFile
						p int
						n []string
					}{f, p, resp.Providers})
					return
				}
				rc.Logf("  attestation form not created: %s", resp.Error)
			}
		})
	}
	for i := 0; i < 1+rc.Intn(2); i++ {
		qStorage = append(qStorage, func() {
			for try := 0; try < 6; try++ {
				f, p, ok := pickProven()
				if !ok {
					return
				}
				u := rc.Intn(nUser)
				r := w.tx(u, "storage.RequestReportForm", &storagetypes.MsgRequestReportForm{Creator: w.bech(u), Prover: w.bech(p), Merkle: f.F.Root(), Owner: f.OwnerAddr, Start: f.Start})
				var resp storagetypes.MsgRequestReportFormResponse
				if r.OK() && r.MsgResponse(0, &resp) == nil && resp.Success {
					return
				}
				rc.Logf("  report form not created: %s", resp.Error)
			}
		})
	}
	if rc.Chance(0.5) {
		// two provers of one file are each under an open report form at export time
		qStorage = append(qStorage, func() {
			for _, f := range files {
				if len(proversOf[f]) < 2 {
					continue
				}
				made := 0
				for _, p := range proversOf[f] {
					u := rc.Intn(nUser)
					r := w.tx(u, "storage.RequestReportForm", &storagetypes.MsgRequestReportForm{Creator: w.bech(u), Prover: w.bech(p), Merkle: f.F.Root(), Owner: f.OwnerAddr, Start: f.Start})
					var resp storagetypes.MsgRequestReportFormResponse
					if r.OK() && r.MsgResponse(0, &resp) == nil && resp.Success {
						made++
					}
					if made == 2 {
						rc.Count("two_report_forms_on_one_file", 1)
						return
					}
				}
			}
		})
	}
	if minPass >= 2 && rc.Chance(0.6) {
		// one attestation short of the quorum: the form stays, with a completed entry inside
		qStorage = append(qStorage, func() {
			if len(attested) == 0 {
				return
			}
			a := attested[rc.Intn(len(attested))]
			for i, acc := range c.Accs {
				if acc.Bech == a.n[0] {
					w.tx(i, "storage.Attest", &storagetypes.MsgAttest{Creator: acc.Bech, Prover: w.bech(a.p), Merkle: a.f.F.Root(), Owner: a.f.OwnerAddr, Start: a.f.Start})
				}
			}
		})
	}

	if rc.Chance(0.3) { // churn: a file (and with it its proof records) disappears; forms that name it stay behind
		qStorage = append(qStorage, func() {
			if len(files) < 3 {
				return
			}
			wf := files[len(files)-1]
			if r := w.tx(wf.Owner, "storage.DeleteFile", &storagetypes.MsgDeleteFile{Creator: wf.OwnerAddr, Merkle: wf.F.Root(), Start: wf.Start}); r.OK() {
				files = files[:len(files)-1]
				delete(proversOf, wf)
			}
		})
	}

	// ---- rns
	type rname struct {
		full  string
		owner int
		init  bool
	}
	var names []*rname
	listed := map[string]bool{}
	for i := 0; i < 1+rc.Intn(3); i++ {
		u := rc.Intn(nUser)
		qRns = append(qRns, func() { w.tx(u, "rns.Init", &rnstypes.MsgInit{Creator: w.bech(u)}) })
	}
	syll := []string{"ka", "lo", "mi", "zu", "re", "to", "wa", "ne", "Xi", "Q-"}
	for i := 0; i < (2+rc.Intn(5))*scale; i++ {
		i := i
		qRns = append(qRns, func() {
			u := rc.Intn(nUser)
			n := ""
			for k := 0; k < 1+rc.Intn(5); k++ {
				n += syll[rc.Intn(len(syll))]
			}
			n = fmt.Sprintf("%s%d", n, i)
			tld := rc.PickS([]string{"jkl", "jkl", "ibc"})
			r := w.tx(u, "rns.RegisterName", &rnstypes.MsgRegisterName{Creator: w.bech(u), Name: n + "." + tld, Years: int64(1 + rc.Intn(3)), Data: c19JSON(rc), SetPrimary: rc.Chance(0.4)})
			if r.OK() {
				names = append(names, &rname{full: strings.ToLower(n) + "." + tld, owner: u})
			}
		})
	}
	for i := 0; i < rc.Intn(3); i++ {
		i := i
		qRns = append(qRns, func() {
			if len(names) == 0 {
				return
			}
			n := names[rc.Intn(len(names))]
			w.tx(n.owner, "rns.AddRecord", &rnstypes.MsgAddRecord{Creator: w.bech(n.owner), Name: n.full, Value: w.bech(rc.Intn(nUser)), Data: c19JSON(rc), Record: fmt.Sprintf("sub%d", i)})
		})
	}
	bidSeen := map[string]bool{}
	for i := 0; i < (1+rc.Intn(4))*scale; i++ {
		qRns = append(qRns, func() {
			if len(names) == 0 {
				return
			}
			n := names[rc.Intn(len(names))]
			b := (n.owner + 1 + rc.Intn(nUser-1)) % nUser
			k := fmt.Sprintf("%d/%s", b, n.full)
			if bidSeen[k] {
				return
			}
			bidSeen[k] = true
			w.tx(b, "rns.Bid", &rnstypes.MsgBid{Creator: w.bech(b), Name: n.full, Bid: sdk.NewInt64Coin("ujkl", int64(1+rc.Intn(5_000_000)))})
		})
	}
	for i := 0; i < 1+rc.Intn(2); i++ {
		qRns = append(qRns, func() {
			for _, n := range names {
				if !listed[n.full] && !n.init {
					if r := w.tx(n.owner, "rns.List", &rnstypes.MsgList{Creator: w.bech(n.owner), Name: n.full, Price: sdk.NewInt64Coin("ujkl", int64(1+rc.Intn(9_000_000)))}); r.OK() {
						listed[n.full] = true
					}
					return
				}
			}
		})
	}
	if rc.Chance(0.4) { // a listed name changes hands without being delisted first: the (now stale) listing stays in the state
		qRns = append(qRns, func() {
			for _, n := range names {
				if listed[n.full] {
					to := (n.owner + 1) % nUser
					if r := w.tx(n.owner, "rns.Transfer(listed)", &rnstypes.MsgTransfer{Creator: w.bech(n.owner), Name: n.full, Receiver: w.bech(to)}); r.OK() {
						n.owner = to
					}
					return
				}
			}
		})
	}
	if rc.Chance(0.35) { // churn: ownership moves, the old owner's primary-name record stays behind
		qRns = append(qRns, func() {
			for _, n := range names {
				if !listed[n.full] {
					to := (n.owner + 1) % nUser
					if r := w.tx(n.owner, "rns.Transfer", &rnstypes.MsgTransfer{Creator: w.bech(n.owner), Name: n.full, Receiver: w.bech(to)}); r.OK() {
						n.owner = to
					}
					return
				}
			}
		})
	}
	if rc.Chance(0.35) {
		qRns = append(qRns, func() {
			if len(names) == 0 {
				return
			}
			n := names[rc.Intn(len(names))]
			w.tx(n.owner, "rns.Update", &rnstypes.MsgUpdate{Creator: w.bech(n.owner), Name: n.full, Data: c19JSON(rc)})
		})
	}

	// ---- filetree
	for _, u := range rc.Rng.Perm(nUser)[:1+rc.Intn(nUser)] {
		u := u
		qTree = append(qTree, func() {
			key := fmt.Sprintf("%x", randBytes(rc.Rng, int64(1+rc.Intn(40))))
			if hostile && len(w.poisoned["filetree"]) == 0 {
				key = "k\xff\xfe" + key
				w.poison("filetree", filetreetypes.PubkeyKeyPrefix+string(filetreetypes.PubkeyKey(w.bech(u))), filetreetypes.PubkeyKeyPrefix+string(filetreetypes.PubkeyKey(w.bech(u))))
			}
			w.tx(u, "filetree.PostKey", &filetreetypes.MsgPostKey{Creator: w.bech(u), Key: key})
			if rc.Chance(0.4) {
				// the same account posts a key under the upper-case spelling of its address (valid bech32, same signer): the
				// module files it as a record of its own, and a record of its own has to come through the round trip
				w.tx(u, "filetree.PostKey", &filetreetypes.MsgPostKey{Creator: strings.ToUpper(w.bech(u)), Key: fmt.Sprintf("%x-upper", randBytes(rc.Rng, int64(1+rc.Intn(40))))})
				rc.Count("pubkeys_under_upper_case_spelling", 1)
			}
		})
	}
	rootPath := filetreetypes.MerklePath("s")
	access := func(kind, tracking string, users ...string) string {
		m := map[string]string{}
		for _, u := range users {
			m[c19Hex(kind+tracking+u)] = fmt.Sprintf("enc-%x", randBytes(rc.Rng, 6))
		}
		b, _ := json.Marshal(m)
		return string(b)
	}
	for _, u := range rc.Rng.Perm(nUser)[:1+rc.Intn(3)] {
		u := u
		track := fmt.Sprintf("trk-%x", randBytes(rc.Rng, 8))
		qTree = append(qTree, func() {
			w.tx(u, "filetree.ProvisionFileTree", &filetreetypes.MsgProvisionFileTree{Creator: w.bech(u), Editors: access("e", track, w.bech(u)), Viewers: access("v", track, w.bech(u)), TrackingNumber: track})
		})
		parent := rootPath
		nChild := (1 + rc.Intn(3)) * scale
		for k := 0; k < nChild; k++ {
			k := k
			ctrack := fmt.Sprintf("trk-%x", randBytes(rc.Rng, 8))
			nest := rc.Chance(0.4)
			qTree = append(qTree, func() {
				viewers := []string{w.bech(u)}
				if rc.Chance(0.5) {
					viewers = append(viewers, w.bech((u+1)%nUser))
				}
				r := w.tx(u, "filetree.PostFile", &filetreetypes.MsgPostFile{Creator: w.bech(u), Account: c19Hex(w.bech(u)), HashParent: parent, HashChild: c19Hex(fmt.Sprintf("child%d-%d", k, rc.Intn(1000))),
					Contents: c19JSON(rc), Viewers: access("v", ctrack, viewers...), Editors: access("e", ctrack, w.bech(u)), TrackingNumber: ctrack})
				var resp filetreetypes.MsgPostFileResponse
				if r.OK() && r.MsgResponse(0, &resp) == nil {
					if nest {
						parent = resp.Path // the next child goes below this one
					} else if rc.Chance(0.15) { // churn: a leaf is deleted again
						w.tx(u, "filetree.DeleteFile", &filetreetypes.MsgDeleteFile{Creator: w.bech(u), HashPath: resp.Path, Account: c19Hex(w.bech(u))})
					}
				}
			})
		}
	}

	if rc.Chance(0.2) {
		// a populous tree: more than a hundred entries below one root (every one of them has to come through)
		u := rc.Intn(nUser)
		crowd := 101 + rc.Intn(30)
		qTree = append(qTree, func() {
			trk := fmt.Sprintf("trk-crowd-%x", randBytes(rc.Rng, 4))
			w.tx(u, "filetree.ProvisionFileTree", &filetreetypes.MsgProvisionFileTree{Creator: w.bech(u), Editors: access("e", trk, w.bech(u)), Viewers: access("v", trk, w.bech(u)), TrackingNumber: trk})
			for k := 0; k < crowd; k++ {
				ct := fmt.Sprintf("%s-%d", trk, k)
				w.tx(u, "filetree.PostFile", &filetreetypes.MsgPostFile{Creator: w.bech(u), Account: c19Hex(w.bech(u)), HashParent: rootPath, HashChild: c19Hex(fmt.Sprintf("crowd-%d", k)),
					Contents: `{"n":` + fmt.Sprint(k) + `}`, Viewers: access("v", ct, w.bech(u)), Editors: access("e", ct, w.bech(u)), TrackingNumber: ct})
			}
			rc.Count("trees_with_over_100_entries", 1)
		})
	}

	// ---- oracle
	feedNames := []string{"jklprice", "btc", "weather/berlin", "feed with space", "ÿ"}
	for _, fi := range rc.Rng.Perm(len(feedNames))[:1+rc.Intn(3)] {
		name := feedNames[fi]
		if hostile && name != "jklprice" && len(w.poisoned["oracle"]) == 0 {
			name = "f\xc3\x28" + name
			w.poison("oracle", oracletypes.FeedKeyPrefix+string(oracletypes.FeedKey(name)), oracletypes.FeedKeyPrefix+string(oracletypes.FeedKey(strings.ToValidUTF8(name, "\uFFFD"))))
		}
		u := rc.Intn(nUser)
		qOracle = append(qOracle, func() { w.tx(u, "oracle.CreateFeed", &oracletypes.MsgCreateFeed{Creator: w.bech(u), Name: name}) })
		for k := 0; k < rc.Intn(3); k++ {
			qOracle = append(qOracle, func() {
				w.tx(u, "oracle.UpdateFeed", &oracletypes.MsgUpdateFeed{Creator: w.bech(u), Name: name,
					Data: fmt.Sprintf(`{"price":"0.%d","24h_change":"%d"}`, 1+rc.Intn(99), rc.Intn(10))})
			})
		}
	}

	// ---- notifications
	blockedBy := map[int]map[string]bool{}
	notify := func() {
		from, to := 0, 0
		for try := 0; ; try++ {
			from, to = rc.Intn(nUser+nProv), rc.Intn(nUser)
			if to != from && !blockedBy[to][w.bech(from)] {
				break
			}
			if try > 20 {
				return
			}
		}
		dest := w.bech(to)
		if rc.Chance(0.25) { // addressed through an rns name
			for _, n := range names {
				if n.owner == to && !n.init {
					dest = n.full
					break
				}
			}
		}
		var priv []byte
		if rc.Chance(0.5) {
			priv = randBytes(rc.Rng, int64(rc.Intn(40)))
		}
		w.tx(from, "notifications.CreateNotification", &notiftypes.MsgCreateNotification{Creator: w.bech(from), To: dest, Contents: c19JSON(rc), PrivateContents: priv})
	}
	for i := 0; i < (1+rc.Intn(3))*scale; i++ {
		qNotif = append(qNotif, notify)
	}
	type blockEntry struct{ owner, blocked int }
	var blocks []blockEntry
	for i := 0; i < 1+rc.Intn(2); i++ {
		qNotif = append(qNotif, func() {
			u := rc.Intn(nUser)
			var list []string
			var idx []int
			for k := 0; k < 1+rc.Intn(2); k++ {
				b := (u + 1 + rc.Intn(nUser+nProv-1)) % (nUser + nProv)
				list = append(list, w.bech(b))
				idx = append(idx, b)
			}
			if len(list) == 0 {
				return
			}
			if r := w.tx(u, "notifications.BlockSenders", &notiftypes.MsgBlockSenders{Creator: w.bech(u), ToBlock: list}); r.OK() {
				if blockedBy[u] == nil {
					blockedBy[u] = map[string]bool{}
				}
				for k, b := range list {
					blockedBy[u][b] = true
					blocks = append(blocks, blockEntry{u, idx[k]})
				}
			}
		})
	}
	for i := 0; i < (1+rc.Intn(3))*scale; i++ {
		qNotif = append(qNotif, notify)
	}
	if rc.Chance(0.3) { // churn: a recipient deletes one of several notifications
		qNotif = append(qNotif, func() {
			var all notiftypes.QueryAllNotificationsResponse
			if err := c.GRPC(c19Path("notifications", "AllNotifications"), &notiftypes.QueryAllNotifications{Pagination: pg()}, &all); err != nil {
				return
			}
			var real []notiftypes.Notification
			for _, n := range all.Notifications {
				if n.Time != 0 {
					real = append(real, n)
				}
			}
			if len(real) < 2 {
				return
			}
			n := real[rc.Intn(len(real))]
			for i, a := range c.Accs {
				if a.Bech == n.To {
					w.tx(i, "notifications.DeleteNotification", &notiftypes.MsgDeleteNotification{Creator: n.To, From: n.From, Time: n.Time})
				}
			}
		})
	}

	if govCase {
		// governance moves module parameters away from their genesis values mid-history, also to zero (a legitimate value
		// that proto3 / JSON cannot tell from "absent")
		qStorage = append(qStorage, func() {
			kv := [][3]string{{"storage", "Referrals", `"0"`}, {"storage", "POLRatio", `"0"`}, {"storage", "MissesToBurn", `"7"`},
				{"jklmint", "DevGrants", `"0"`}, {"jklmint", "MintIncrease", `"0"`}, {"storage", "MaxContractAgeInBlocks", `"0"`}}[rc.Intn(6)]
			err := c.ParamChange(kv[0], kv[1], kv[2])
			rc.Logf("h=%d governance %s/%s := %s -> %v", c.Height, kv[0], kv[1], kv[2], err)
			if err == nil {
				rc.Count("gov_param_changes", 1)
			}
		})
	}

	// ------------------------------------------------------------ run the history: random interleaving, random block boundaries
	if _, err := c.BeginBlock(6 * time.Second); err != nil {
		rc.Abort("first block: " + err.Error())
		return
	}
	queues := []*[]func(){&qStorage, &qRns, &qTree, &qOracle, &qNotif}
	// two export points the random block boundaries practically never produce (chosen by case number, so that the other
	// cases' histories stay what they were): "early" = the whole (shortened) history sits in the chain's first block and the
	// export is taken at height 1; "late" = the last block before the export lands two years after the previous one without
	// being a reward block, so that whatever runs out with time (payment gauges, plans, files paid once) has run out but
	// has not been swept yet
	early := rc.Case%12 == 7
	late := rc.Case%12 == 3 && C > 1
	for {
		var live []*[]func()
		for _, q := range queues {
			if len(*q) > 0 {
				live = append(live, q)
			}
		}
		if len(live) == 0 {
			break
		}
		q := live[rc.Intn(len(live))]
		f := (*q)[0]
		*q = (*q)[1:]
		f()
		if early {
			if w.txs >= 25 {
				break
			}
			continue
		}
		if rc.Chance(0.22) {
			for k := 0; k < 1+rc.Intn(2); k++ {
				if err := w.nextBlock(); err != nil {
					if pe, ok := err.(*chain.PanicError); ok {
						rc.Abort("panic while driving the history (C05 territory): " + pe.Error())
					} else {
						rc.Abort(err.Error())
					}
					return
				}
			}
		}
	}
	if late {
		if (c.Height+1)%C == 0 {
			if _, err := c.NextBlock(6 * time.Second); err != nil {
				rc.Abort("extra block: " + err.Error())
				return
			}
		}
		if _, err := c.NextBlock(2 * 365 * 24 * time.Hour); err != nil {
			if pe, ok := err.(*chain.PanicError); ok {
				rc.Abort("panic in the late block (C05 territory): " + pe.Error())
			} else {
				rc.Abort("late block: " + err.Error())
			}
			return
		}
		var gr storagetypes.QueryAllGaugesResponse
		if err := c.GRPC("/canine_chain.storage.Query/Gauges", &storagetypes.QueryAllGauges{}, &gr); err == nil {
			n := 0
			for _, g := range gr.Gauges {
				if g.End.Before(c.Ctx().BlockTime()) {
					n++
				}
			}
			rc.Count("ended_gauges_not_yet_swept_at_export", n)
		}
		rc.Count("exports_two_years_after_the_previous_block", 1)
	} else if early {
		if c.Height == 1 {
			rc.Count("exports_at_height_1", 1)
		}
	} else if rc.Chance(0.4) {
		// export at a height whose decimal spelling ends in 9 (keys that embed decimal heights sort as text, not as numbers)
		for c.Height%10 != 9 {
			if _, err := c.NextBlock(6 * time.Second); err != nil {
				rc.Abort("extra block: " + err.Error())
				return
			}
		}
		rc.Count("exports_at_a_height_ending_in_9", 1)
	}
	if err := c.EndAndCommit(); err != nil {
		rc.Abort("closing the last block: " + err.Error())
		return
	}
	rc.Logf("history done: height=%d txs=%d (failed %d)", c.Height, w.txs, w.failed)
	rc.Count("blocks", int(c.Height))

	// ------------------------------------------------------------ (1) source observation on committed state
	srcKV, counts := c19DumpKV(c)
	var missing []string
	for _, k := range c19Required {
		if counts[k] == 0 {
			missing = append(missing, k)
		}
	}
	var accounts []string
	for _, a := range c.Accs {
		accounts = append(accounts, a.Bech)
	}
	plan, err := c19Plan(c, accounts, c.Height)
	if err != nil {
		rc.Abort("building the query plan: " + err.Error())
		return
	}
	preAns := c19Ask(c, plan)
	for i, a := range preAns {
		if a.Err != "" {
			rc.Logf("query %s/%s(%s) does not answer before export (not compared): %s", plan[i].Module, plan[i].Rpc, plan[i].Arg, c19Short(a.Err, 100))
		}
	}

	var findings []c19Finding
	emit := func() {
		sort.SliceStable(findings, func(i, j int) bool { return findings[i].Sig < findings[j].Sig })
		for _, f := range findings {
			rc.Fail(f.Sig, "%s", f.Detail)
		}
	}
	sample := map[string]interface{}{"height": c.Height, "txs": w.txs, "txs_failed": w.failed, "records": counts, "queries": len(plan),
		"params": fmt.Sprintf("formSize=%d minPass=%d chunk=%d W=%d C=%d", formSize, minPass, chunk, W, C), "invalid_utf8_strings": hostile, "scale": scale}
	defer func() { rc.Sample(sample) }()

	// ------------------------------------------------------------ (2) real export
	exp, err := c.Export()
	if err != nil {
		rc.Fail("C19/export-failed", "ExportAppStateAndValidators on height %d: %v", c.Height, err)
		return
	}
	sections, gs, err := c19Sections(exp.AppState)
	if err != nil {
		rc.Fail("C19/export-failed", "exported app state unusable: %v", err)
		return
	}
	// self-check of the monitor: the module-level export used for "export again" must reproduce the real export on the source
	if me, err := c19ModuleExport(c); err != nil {
		rc.Abort("module-level export on the source: " + err.Error())
		return
	} else if d, _ := c19CompareExports(sections, me); len(d) > 0 {
		rc.Abort(fmt.Sprintf("monitor self-check failed: module-level export differs from ExportAppStateAndValidators on the source (%s: %s)", d[0].Sig, d[0].Detail))
		return
	}

	// ------------------------------------------------------------ (3) ValidateGenesis on the exported state
	vf, ev := c19Validate(c.Enc, gs)
	rc.Eval(ev)
	findings = append(findings, vf...)

	// ------------------------------------------------------------ (4) fresh application, InitChain on the exported state
	dst, err := chain.NewFromExport(c, exp)
	if dst != nil {
		defer dst.Close()
	}
	if err != nil {
		if pe, ok := err.(*chain.PanicError); ok {
			findings = append(findings, c19Finding{"C19/import-panic/" + c19PanicModule(pe.Stack), fmt.Sprintf("InitChain on the exported state (height %d) panicked: %s", exp.Height, c19Short(pe.Value, 400))})
			emit()
			return
		}
		rc.Abort("building the restored app: " + err.Error())
		return
	}

	// ------------------------------------------------------------ (5) restored observation, before any block
	var dstKV map[string]map[string][]byte
	var postAns []c19Answer
	var reexp map[string]json.RawMessage
	var reerr error
	dst.PreBlock(func() {
		dstKV, _ = c19DumpKV(dst)
		postAns = c19Ask(dst, plan)
		reexp, reerr = c19ModuleExport(dst) // (6) export again
	})
	kf, ev := c19CompareKV(srcKV, dstKV, w.poisoned, w.poisonExtra)
	rc.Eval(ev)
	findings = append(findings, kf...)
	// the emission record of the export height itself (the one the next block's emission is derived from) has to come
	// through, whatever happens to older history (older records are a listed finding under another signature)
	{
		suffix := fmt.Sprintf("minted_at_%d", exp.Height-1)
		for store, kv := range srcKV {
			for key, v := range kv {
				if !strings.HasSuffix(key, suffix) {
					continue
				}
				if v2, ok2 := dstKV[store][key]; !ok2 || string(v2) != string(v) {
					findings = append(findings, c19Finding{"C19/lost/jklmint/latest-MintedBlock", fmt.Sprintf("the emission record of the export height %d (store %s, key %q) is %x after import (present: %v), was %x", exp.Height-1, store, key, v2, ok2, v)})
				}
				rc.Eval(1)
				rc.Count("latest_minted_record_compared", 1)
			}
		}
	}
	qf, ev, unanswered := c19CompareAnswers(plan, preAns, postAns)
	rc.Eval(ev)
	rc.Count("queries_compared", ev)
	rc.Count("queries_unanswered_before", unanswered)
	findings = append(findings, qf...)
	if reerr != nil {
		findings = append(findings, c19Finding{"C19/reexport-failed", reerr.Error()})
	} else {
		xf, ev := c19CompareExports(sections, reexp)
		rc.Eval(ev)
		findings = append(findings, xf...)
	}

	// ------------------------------------------------------------ one block on the restored chain (and the same block on the source, for witnesses)
	_, e1 := c.BeginBlock(6 * time.Second)
	_, e2 := dst.BeginBlock(6 * time.Second)
	if e2 != nil {
		findings = append(findings, c19Finding{"C19/import-panic/first-block", fmt.Sprintf("first BeginBlock (height %d) on the restored chain: %v", dst.Height, e2)})
		emit()
		return
	}
	if e1 == nil {
		// behavioural witnesses for the trace (not verdict-bearing)
		for _, b := range blocks {
			msg := &notiftypes.MsgCreateNotification{Creator: w.bech(b.blocked), To: w.bech(b.owner), Contents: `{"witness":1}`}
			r1 := c.DeliverAs(b.blocked, msg)
			r2 := dst.DeliverAs(b.blocked, msg)
			rc.Logf("witness: acc%d was blocked by acc%d; its notification is answered code=%d on the source and code=%d on the restored chain", b.blocked, b.owner, r1.Code, r2.Code)
			break
		}
		var m1, m2, m0 minttypes.QueryMintedTokensResponse
		_ = c.GRPC(c19Path("jklmint", "MintedTokens"), &minttypes.QueryMintedTokens{Block: c.Height - 1}, &m0)
		_ = c.GRPC(c19Path("jklmint", "MintedTokens"), &minttypes.QueryMintedTokens{Block: c.Height}, &m1)
		_ = dst.GRPC(c19Path("jklmint", "MintedTokens"), &minttypes.QueryMintedTokens{Block: dst.Height}, &m2)
		rc.Logf("witness: emission of block %d was %d; block %d mints %d on the source and %d on the restored chain", c.Height-1, m0.Tokens, c.Height, m1.Tokens, m2.Tokens)
	}
	if err := dst.EndAndCommit(); err != nil {
		findings = append(findings, c19Finding{"C19/import-panic/first-block", fmt.Sprintf("closing the first block on the restored chain: %v", err)})
		emit()
		return
	}
	if exp2, err := dst.Export(); err != nil {
		findings = append(findings, c19Finding{"C19/reexport-failed", fmt.Sprintf("ExportAppStateAndValidators on the restored chain after one block: %v", err)})
	} else if _, gs2, err := c19Sections(exp2.AppState); err != nil {
		findings = append(findings, c19Finding{"C19/reexport-failed", "re-exported app state unusable: " + err.Error()})
	} else {
		vf2, ev := c19Validate(dst.Enc, gs2)
		rc.Eval(ev)
		for _, f := range vf2 {
			f.Detail = "(export of the restored chain after one block) " + f.Detail
			findings = append(findings, f)
		}
	}

	// ------------------------------------------------------------ verdicts
	if len(missing) == 0 {
		var parts []string
		for _, k := range c19Required {
			parts = append(parts, fmt.Sprint(counts[k]))
		}
		rc.NonTrivial("all20:" + strings.Join(parts, ","))
	} else {
		rc.Logf("state is NOT non-trivial, no record under: %v", missing)
		rc.Count("trivial_states", 1)
		sample["missing"] = missing
	}
	var sigs []string
	for _, f := range findings {
		sigs = append(sigs, f.Sig)
	}
	sort.Strings(sigs)
	sample["finding_sigs"] = sigs
	emit()
}
