package props

import (
	"fmt"
	"sort"
	"strings"
	"time"

	"github.com/cosmos/cosmos-sdk/types/query"

	"jkverif/chain"
	"jkverif/gen"

	storagetypes "github.com/jackalLabs/canine-chain/v4/x/storage/types"
)

// C17 – stored-file indexes and prover lists stay mutually consistent.

func init() {
	Register(&Prop{
		ID:    "C17",
		Title: "Stored-file indexes and prover lists stay mutually consistent",
		Cases: func(t string) int { return tierN(t, 140, 20000) },
		Run:   runC17,
		Rule: "case = one history of 35-60 steps over 2 owners and 4 providers: post (plan-paid / pay-once, replication 1-4, the same merkle by two owners, the same merkle twice in one block), honest proofs, deliberately skipped windows, owner delete, provider shutdown and re-init, report forms and reports (form size 1, minimum 1, so a single report removes a prover), attestation forms and attestations, blocks with proof window 2-4 and reward interval 2-3 so reward blocks remove provers at varying list positions and drop files; " +
			"oracle after every transaction and every BeginBlock: AllFilesByMerkle and AllFilesByOwner (paginated to exhaustion) hold the same set of byte-identical records and agree with AllFiles; per file no duplicate provers, len(Proofs) <= MaxProofs, every listed key resolves through the Proof query to a record that rebuilds the same key and names this file and appears in ProofsByAddress; FindFile returns exactly the IPs of the registered providers among the listed provers; " +
			"non-trivial signature = the set of mutation paths seen in the history (removal at first/middle/last list position by reward block, report removal, owner delete with provers, chain drop, shutdown of a listed provider, same-key re-post, shared merkle) ",
		Assumptions: []string{"proof records that no file lists (orphans) are counted as an observation, not a violation: the statement constrains listed provers only"},
		MinNonTriv:  20,
	})
}

func c17Check(rc *RunCtx, s *SW, when string) {
	rc.Eval(1)
	var all storagetypes.QueryAllFilesResponse
	var bm storagetypes.QueryAllFilesByMerkleResponse
	var bo storagetypes.QueryAllFilesByOwnerResponse
	if err := s.q("AllFiles", &storagetypes.QueryAllFiles{Pagination: pg()}, &all); err != nil {
		rc.Fail("C17/query-failed", "%s: AllFiles: %v", when, err)
		return
	}
	// paginate the two index listings to exhaustion with a small page size
	var byM, byO []storagetypes.UnifiedFile
	var next []byte
	for i := 0; i < 1000; i++ {
		bm = storagetypes.QueryAllFilesByMerkleResponse{}
		if err := s.q("AllFilesByMerkle", &storagetypes.QueryAllFilesByMerkle{Pagination: &query.PageRequest{Key: next, Limit: 3}}, &bm); err != nil {
			rc.Fail("C17/query-failed", "%s: AllFilesByMerkle: %v", when, err)
			return
		}
		byM = append(byM, bm.Files...)
		if bm.Pagination == nil || len(bm.Pagination.NextKey) == 0 {
			break
		}
		next = bm.Pagination.NextKey
	}
	next = nil
	for i := 0; i < 1000; i++ {
		bo = storagetypes.QueryAllFilesByOwnerResponse{}
		if err := s.q("AllFilesByOwner", &storagetypes.QueryAllFilesByOwner{Pagination: &query.PageRequest{Key: next, Limit: 3}}, &bo); err != nil {
			rc.Fail("C17/query-failed", "%s: AllFilesByOwner: %v", when, err)
			return
		}
		byO = append(byO, bo.Files...)
		if bo.Pagination == nil || len(bo.Pagination.NextKey) == 0 {
			break
		}
		next = bo.Pagination.NextKey
	}
	set := func(fs []storagetypes.UnifiedFile) (map[string]string, bool) {
		m := map[string]string{}
		dup := false
		for _, f := range fs {
			bz, _ := f.Marshal()
			k := fileKey(f)
			if _, ok := m[k]; ok {
				dup = true
			}
			m[k] = string(bz)
		}
		return m, dup
	}
	mM, d1 := set(byM)
	mO, d2 := set(byO)
	mA, _ := set(all.Files)
	if d1 || d2 {
		rc.Fail("C17/listing-duplicate", "%s: a listing returned the same file twice", when)
	}
	for k, v := range mM {
		if w, ok := mO[k]; !ok {
			rc.Fail("C17/missing-in-owner-index", "%s: file %s is in the by-content listing but not in the by-owner listing", when, k)
		} else if w != v {
			rc.Fail("C17/index-records-differ", "%s: file %s differs between the two listings", when, k)
		}
		if w, ok := mA[k]; !ok || w != v {
			rc.Fail("C17/allfiles-disagrees", "%s: file %s differs between AllFiles and AllFilesByMerkle", when, k)
		}
	}
	for k := range mO {
		if _, ok := mM[k]; !ok {
			rc.Fail("C17/missing-in-merkle-index", "%s: file %s is in the by-owner listing but not in the by-content listing", when, k)
		}
	}
	listedKeys := map[string]bool{}
	ipsByMerkle := map[string][]string{}
	for _, f := range byM {
		seen := map[string]bool{}
		if int64(len(f.Proofs)) > f.MaxProofs {
			rc.Fail("C17/over-replicated", "%s: file %s lists %d provers, replication limit %d", when, fileKey(f), len(f.Proofs), f.MaxProofs)
		}
		for _, pk := range f.Proofs {
			if seen[pk] {
				rc.Fail("C17/duplicate-prover", "%s: file %s lists %s twice", when, fileKey(f), pk)
			}
			seen[pk] = true
			listedKeys[pk] = true
			prover := proverOfKey(pk)
			var pr storagetypes.QueryProofResponse
			if err := s.q("Proof", &storagetypes.QueryProof{ProviderAddress: prover, Merkle: f.Merkle, Owner: f.Owner, Start: f.Start}, &pr); err != nil {
				rc.Fail("C17/listed-prover-without-record", "%s: file %s lists %s but the Proof query fails: %v", when, fileKey(f), pk, err)
				continue
			}
			p := pr.Proof
			if proofKey(p) != pk || string(p.Merkle) != string(f.Merkle) || p.Owner != f.Owner || p.Start != f.Start || p.Prover != prover {
				rc.Fail("C17/proof-record-mismatch", "%s: file %s lists %s but the record rebuilds key %s", when, fileKey(f), pk, proofKey(p))
			}
			var pa storagetypes.QueryProofsByAddressResponse
			found := false
			if err := s.q("ProofsByAddress", &storagetypes.QueryProofsByAddress{ProviderAddress: prover, Pagination: pg()}, &pa); err == nil {
				for _, q := range pa.Proofs {
					if proofKey(q) == pk {
						found = true
					}
				}
			}
			if !found {
				rc.Fail("C17/proof-not-in-by-address", "%s: proof %s not returned by ProofsByAddress", when, pk)
			}
			var pv storagetypes.QueryProviderResponse
			if s.q("Provider", &storagetypes.QueryProvider{Address: prover}, &pv) == nil {
				ipsByMerkle[string(f.Merkle)] = append(ipsByMerkle[string(f.Merkle)], pv.Provider.Ip)
			}
		}
	}
	for _, f := range byM {
		m := string(f.Merkle)
		var ff storagetypes.QueryFindFileResponse
		if err := s.q("FindFile", &storagetypes.QueryFindFile{Merkle: f.Merkle}, &ff); err != nil {
			rc.Fail("C17/findfile-failed", "%s: FindFile: %v", when, err)
			continue
		}
		a := append([]string{}, ff.ProviderIps...)
		b := append([]string{}, ipsByMerkle[m]...)
		sort.Strings(a)
		sort.Strings(b)
		if strings.Join(a, ",") != strings.Join(b, ",") {
			rc.Fail("C17/findfile-disagrees", "%s: FindFile(%x) = %v, listed registered provers' IPs = %v", when, f.Merkle[:6], a, b)
		}
	}
	var ap storagetypes.QueryAllProofsResponse
	if s.q("AllProofs", &storagetypes.QueryAllProofs{Pagination: pg()}, &ap) == nil {
		for _, p := range ap.Proofs {
			if !listedKeys[proofKey(p)] {
				rc.Count("orphan_proof_records_observed", 1)
			}
		}
	}
}

func runC17(rc *RunCtx) {
	W := int64(2 + rc.Intn(3))
	C := int64(2 + rc.Intn(2))
	sp := storageParams(W, C, 1024)
	sp.AttestFormSize = 1
	sp.AttestMinToPass = 1
	sp.CollateralPrice = 1000
	c, err := chain.New(chain.Config{Seed: rc.Seed, NAcc: 6, Storage: sp})
	if err != nil {
		rc.Abort("init: " + err.Error())
		return
	}
	defer c.Close()
	s := &SW{rc: rc, c: c}
	paths := map[string]bool{}
	jumped := false
	step := func() bool {
		dt := 6 * time.Second
		if !jumped && rc.Chance(0.02) {
			// once per history, time leaps past the end of every storage plan (plans run 90 days): files, provers and
			// proofs stay, their owners' plans have lapsed
			dt = 100 * 24 * time.Hour
			jumped = true
			paths["plans-lapsed"] = true
		}
		ro, err := s.StepBlock(dt)
		if err != nil {
			if _, ok := err.(*chain.PanicError); ok {
				rc.Abort("BeginBlock panic (C05 territory): " + err.Error())
			} else {
				rc.Abort(err.Error())
			}
			return false
		}
		// classify removals for the non-trivial signature
		for _, f := range ro.Pre.Files {
			pf := ro.Post.File(fileKey(f))
			if pf == nil {
				paths["chain-drop"] = true
				continue
			}
			if len(pf.Proofs) < len(f.Proofs) {
				kept := map[string]bool{}
				for _, pk := range pf.Proofs {
					kept[pk] = true
				}
				for i, pk := range f.Proofs {
					if !kept[pk] {
						switch {
						case len(f.Proofs) == 1:
							paths["reward-removal-only"] = true
						case i == 0:
							paths["reward-removal-first"] = true
						case i == len(f.Proofs)-1:
							paths["reward-removal-last"] = true
						default:
							paths["reward-removal-middle"] = true
						}
					}
				}
			}
		}
		c17Check(rc, s, fmt.Sprintf("after BeginBlock h=%d", c.Height))
		return true
	}
	if !step() {
		return
	}
	owners := []int{0, 1}
	provs := []int{2, 3, 4, 5}
	for _, o := range owners {
		if r := s.BuyPlan(o, o, 10_000_000_000, 90, ""); !r.OK() {
			rc.Abort("buy: " + r.Log)
			return
		}
	}
	s.RollbackProb = 0.05
	registered := map[int]bool{}
	for _, p := range provs {
		if rc.Chance(0.8) {
			if s.InitProvider(p, fmt.Sprintf("https://n%d.d%d.example", p, p)).OK() {
				registered[p] = true
			}
		}
	}
	var live []*WFile
	shared := gen.NewFile(randBytes(rc.Rng, 700), 1024)
	n := 35 + rc.Intn(26)
	for i := 0; i < n; i++ {
		switch k := rc.Intn(100); {
		case k < 18: // post
			o := owners[rc.Intn(2)]
			f := gen.NewFile(randBytes(rc.Rng, int64(1+rc.Intn(4000))), 1024)
			if rc.Chance(0.25) {
				f = shared
				paths["shared-merkle"] = true
			}
			exp := int64(0)
			if rc.Chance(0.2) {
				exp = c.Height + 20000
			}
			w, r := s.PostFile(o, f, int64(1+rc.Intn(4)), exp, -1)
			if r.OK() {
				live = append(live, w)
				if rc.Chance(0.2) {
					// first let one to three providers join, then re-post the same key in the same block (often with a smaller
					// replication limit than the number that joined)
					for _, pi := range rc.Rng.Perm(4)[:1+rc.Intn(3)] {
						s.ProveHonest(provs[pi], w)
					}
					if _, r2 := s.PostFile(o, f, int64(1+rc.Intn(3)), exp, -1); r2.OK() {
						paths["same-key-repost-with-prover"] = true
					}
				}
			}
		case k < 55: // prove
			if len(live) == 0 {
				continue
			}
			w := live[rc.Intn(len(live))]
			if rc.Chance(0.12) {
				// a proof that does not verify (right index for a newcomer, tampered chunk): whoever sends it, nothing is enrolled
				item, hl := w.F.Proof(0)
				item = append([]byte{0x5a}, item...)
				s.SubmitProof(provs[rc.Intn(4)], w.F.Root(), w.OwnerAddr, w.Start, 0, item, hl)
				paths["invalid-proof"] = true
			} else if rc.Chance(0.12) {
				// the prover spells its own address in upper case (also when it is already listed under the usual spelling)
				if s.ProveHonestUpper(provs[rc.Intn(4)], w).Success {
					paths["upper-case-prover"] = true
				}
			} else {
				s.ProveHonest(provs[rc.Intn(4)], w)
			}
		case k < 63: // delete
			if len(live) == 0 {
				continue
			}
			j := rc.Intn(len(live))
			w := live[j]
			var fr storagetypes.QueryFileResponse
			hadProvers := s.q("File", &storagetypes.QueryFile{Merkle: w.F.Root(), Owner: w.OwnerAddr, Start: w.Start}, &fr) == nil && len(fr.File.Proofs) > 0
			if s.DeleteFile(w.Owner, w).OK() {
				live = append(live[:j], live[j+1:]...)
				if hadProvers {
					paths["owner-delete-with-provers"] = true
				}
			}
		case k < 70: // provider shutdown / re-init
			p := provs[rc.Intn(4)]
			if registered[p] {
				var pa storagetypes.QueryProofsByAddressResponse
				holds := s.q("ProofsByAddress", &storagetypes.QueryProofsByAddress{ProviderAddress: c.Accs[p].Bech, Pagination: pg()}, &pa) == nil && len(pa.Proofs) > 0
				if c.DeliverAs(p, &storagetypes.MsgShutdownProvider{Creator: c.Accs[p].Bech}).OK() {
					registered[p] = false
					if holds {
						paths["shutdown-of-listed-provider"] = true
					}
				}
			} else if s.InitProvider(p, fmt.Sprintf("https://n%d.d%d.example", p, p)).OK() {
				registered[p] = true
			}
		case k < 80: // report flow against a listed prover
			if len(live) == 0 {
				continue
			}
			w := live[rc.Intn(len(live))]
			var fr storagetypes.QueryFileResponse
			if s.q("File", &storagetypes.QueryFile{Merkle: w.F.Root(), Owner: w.OwnerAddr, Start: w.Start}, &fr) != nil || len(fr.File.Proofs) == 0 {
				continue
			}
			target := proverOfKey(fr.File.Proofs[rc.Intn(len(fr.File.Proofs))])
			tx := c.DeliverAs(0, &storagetypes.MsgRequestReportForm{Creator: c.Accs[0].Bech, Prover: target, Merkle: w.F.Root(), Owner: w.OwnerAddr, Start: w.Start})
			var resp storagetypes.MsgRequestReportFormResponse
			if tx.OK() && tx.MsgResponse(0, &resp) == nil && resp.Success {
				for _, nm := range resp.Providers {
					for _, p := range provs {
						if c.Accs[p].Bech == nm {
							if c.DeliverAs(p, &storagetypes.MsgReport{Creator: nm, Prover: target, Merkle: w.F.Root(), Owner: w.OwnerAddr, Start: w.Start}).OK() {
								paths["report-removal"] = true
							}
						}
					}
				}
			}
		case k < 86: // attestation flow
			if len(live) == 0 {
				continue
			}
			w := live[rc.Intn(len(live))]
			p := provs[rc.Intn(4)]
			tx := c.DeliverAs(p, &storagetypes.MsgRequestAttestationForm{Creator: c.Accs[p].Bech, Merkle: w.F.Root(), Owner: w.OwnerAddr, Start: w.Start})
			var resp storagetypes.MsgRequestAttestationFormResponse
			if tx.OK() && tx.MsgResponse(0, &resp) == nil && resp.Success {
				for _, nm := range resp.Providers {
					for _, q := range provs {
						if c.Accs[q].Bech == nm {
							c.DeliverAs(q, &storagetypes.MsgAttest{Creator: nm, Prover: c.Accs[p].Bech, Merkle: w.F.Root(), Owner: w.OwnerAddr, Start: w.Start})
							paths["attestation"] = true
						}
					}
				}
			}
		default:
			if !step() {
				return
			}
			continue
		}
		c17Check(rc, s, fmt.Sprintf("after tx step %d h=%d", i, c.Height))
	}
	for i := int64(0); i < 2*W+C; i++ {
		if !step() {
			return
		}
	}
	for p := range paths {
		rc.NonTrivial(p)
	}
	rc.NonTrivial(fmt.Sprintf("combo:%v", keysOf(paths)))
	rc.Sample(map[string]interface{}{"W": W, "C": C, "paths": keysOf(paths)})
}
