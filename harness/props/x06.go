package props

import (
	"fmt"
	"strings"
	"time"

	"jkverif/chain"
	"jkverif/gen"

	filetreekeeper "github.com/jackalLabs/canine-chain/v4/x/filetree/keeper"
	filetreetypes "github.com/jackalLabs/canine-chain/v4/x/filetree/types"
	oracletypes "github.com/jackalLabs/canine-chain/v4/x/oracle/types"
	rnstypes "github.com/jackalLabs/canine-chain/v4/x/rns/types"
	storagetypes "github.com/jackalLabs/canine-chain/v4/x/storage/types"
)

// X06 is not a property: it is the dedicated history generator of the C06
// determinism check. It maximises the populations of the structures whose
// processing order could depend on map iteration or process-local state:
// many provers and many gauges in one reward block, access-control maps with
// many ids, attestation / report forms (provider shuffles), several referrals.
func init() {
	Register(&Prop{ID: "X06", Title: "C06 corpus generator", Cases: func(t string) int { return 1 << 30 }, Run: runX06, Rule: "generator"})
}

func runX06(rc *RunCtx) {
	W := int64(2 + rc.Intn(3))
	C := int64(2 + rc.Intn(2))
	sp := storageParams(W, C, 1024)
	sp.CollateralPrice = 1000
	sp.AttestFormSize = 3
	sp.AttestMinToPass = 2
	c, err := chain.New(chain.Config{Seed: rc.Seed, NAcc: 9, Storage: sp})
	if err != nil {
		rc.Abort("init: " + err.Error())
		return
	}
	defer c.Close()
	s := &SW{rc: rc, c: c}
	nb := func(dt time.Duration) bool {
		if _, err := c.NextBlock(dt); err != nil {
			rc.Abort(err.Error())
			return false
		}
		return true
	}
	if !nb(6 * time.Second) {
		return
	}
	A := func(i int) string { return c.Accs[i].Bech }
	c.DeliverAs(8, &rnstypes.MsgRegisterName{Creator: A(8), Name: "referrer.jkl", Years: 1, Data: "{}"})
	// a name with several records, some of them deleted again (the stored record list is rebuilt on delete)
	recs := []string{"app", "mail", "wiki", "shop", "cdn", "dev"}
	for _, rname := range recs[:4+rc.Intn(3)] {
		c.DeliverAs(8, &rnstypes.MsgAddRecord{Creator: A(8), Name: "referrer.jkl", Value: A(rc.Intn(8)), Data: "{}", Record: rname})
	}
	c.DeliverAs(8, &rnstypes.MsgDelRecord{Creator: A(8), Name: recs[rc.Intn(3)] + ".referrer.jkl"})
	c.DeliverAs(8, &rnstypes.MsgUpdate{Creator: A(8), Name: "referrer.jkl", Data: `{"k":"v"}`})
	nG := 3 + rc.Intn(3)
	for i := 0; i < nG; i++ {
		ref := ""
		if i%2 == 1 {
			ref = "referrer.jkl"
		}
		s.BuyPlan(i%2, i%2, int64(10+i*7)*1_000_000_000_000, int64(30+40*i), ref)
		if !nb(time.Duration(1+rc.Intn(50)) * time.Hour) {
			return
		}
	}
	provs := []int{2, 3, 4, 5, 6, 7}
	for _, p := range provs {
		s.InitProvider(p, fmt.Sprintf("https://n%d.dom%d.example", p, p))
	}
	var files []*WFile
	for i := 0; i < 3+rc.Intn(2); i++ {
		f := gen.NewFile(randBytes(rc.Rng, int64(1+rc.Intn(6000))), 1024)
		exp := int64(0)
		if i == 2 {
			exp = c.Height + 30000
		}
		if w, r := s.PostFile(i%2, f, 6, exp, -1); r.OK() {
			files = append(files, w)
		}
	}
	order := rc.Rng.Perm(len(provs))
	for _, w := range files {
		for _, oi := range order {
			s.ProveHonest(provs[oi], w)
		}
	}
	// file tree with large access maps
	u := 0
	trk := "trk-x06"
	var ids, keys []string
	for i := 0; i < 12; i++ {
		ids = append(ids, filetreekeeper.MakeViewerAddress(trk, fmt.Sprintf("user%d-%d", i, rc.Intn(1000))))
		keys = append(keys, fmt.Sprintf("key%d", i))
	}
	ed := fmt.Sprintf(`{"%s":"k"}`, filetreekeeper.MakeEditorAddress(trk, A(u)))
	vw := fmt.Sprintf(`{"%s":"k"}`, filetreekeeper.MakeViewerAddress(trk, A(u)))
	c.DeliverAs(u, &filetreetypes.MsgProvisionFileTree{Creator: A(u), Editors: ed, Viewers: vw, TrackingNumber: trk})
	root := filetreetypes.MerklePath("s")
	acct := hexSha(A(u))
	child := hexSha("home")
	c.DeliverAs(u, &filetreetypes.MsgPostFile{Creator: A(u), Account: acct, HashParent: root, HashChild: child, Contents: "{}", Viewers: vw, Editors: ed, TrackingNumber: trk})
	caddr := filetreetypes.AddToMerkle(root, child)
	own := filetreekeeper.MakeOwnerAddress(caddr, acct)
	c.DeliverAs(u, &filetreetypes.MsgAddViewers{Creator: A(u), ViewerIds: strings.Join(ids, ","), ViewerKeys: strings.Join(keys, ","), Address: caddr, FileOwner: own})
	c.DeliverAs(u, &filetreetypes.MsgAddEditors{Creator: A(u), EditorIds: strings.Join(ids[:7], ","), EditorKeys: strings.Join(keys[:7], ","), Address: caddr, FileOwner: own})
	c.DeliverAs(u, &filetreetypes.MsgRemoveViewers{Creator: A(u), ViewerIds: strings.Join(ids[3:6], ","), Address: caddr, FileOwner: own})
	if !nb(time.Hour) {
		return
	}
	// forms (provider shuffles) and signatures
	for i, w := range files {
		p := provs[i%len(provs)]
		tx := c.DeliverAs(p, &storagetypes.MsgRequestAttestationForm{Creator: A(p), Merkle: w.F.Root(), Owner: w.OwnerAddr, Start: w.Start})
		var resp storagetypes.MsgRequestAttestationFormResponse
		if tx.OK() && tx.MsgResponse(0, &resp) == nil {
			for _, nm := range resp.Providers {
				for _, q := range provs {
					if A(q) == nm {
						c.DeliverAs(q, &storagetypes.MsgAttest{Creator: nm, Prover: A(p), Merkle: w.F.Root(), Owner: w.OwnerAddr, Start: w.Start})
					}
				}
			}
		}
		c.DeliverAs(0, &storagetypes.MsgRequestReportForm{Creator: A(0), Prover: A(provs[(i+1)%len(provs)]), Merkle: w.F.Root(), Owner: w.OwnerAddr, Start: w.Start})
	}
	// several windows: a PRNG subset keeps proving, the rest is removed at reward blocks
	keep := map[int]bool{}
	for _, p := range provs {
		keep[p] = rc.Chance(0.6)
	}
	// price feed: updated most blocks (sometimes twice, with a price reader in between); purchases priced from it;
	// simulation-only transactions that update the feed and read the price in one go (served by some nodes only)
	c.DeliverAs(8, &oracletypes.MsgCreateFeed{Creator: A(8), Name: sp.PriceFeed})
	price := func() string { return fmt.Sprintf(`{"price":"0.%04d","24h_change":"0"}`, 1+rc.Intn(9999)) }
	c.DeliverAs(8, &oracletypes.MsgUpdateFeed{Creator: A(8), Name: sp.PriceFeed, Data: price()})
	payOnce := func() {
		f := gen.NewFile(randBytes(rc.Rng, int64(1+rc.Intn(600))), 1024)
		ahead := 14_400 + int64(rc.Intn(50_000))
		if rc.Chance(0.4) {
			ahead = 14_400 * int64(60+rc.Intn(300)) // paid for months: the period spans daylight-saving switches of most zones that have them
		}
		s.PostFile(rc.Intn(2), f, int64(1+rc.Intn(3)), c.Height+ahead, int64(1_000_000+rc.Intn(1_000_000_000)))
	}
	for b := int64(0); b < 3*W+2*C; b++ {
		if !nb([]time.Duration{6 * time.Second, time.Hour, 24 * time.Hour}[rc.Intn(3)]) {
			return
		}
		if rc.Chance(0.5) {
			c.SimOnly(8, &oracletypes.MsgUpdateFeed{Creator: A(8), Name: sp.PriceFeed, Data: price()},
				&storagetypes.MsgBuyStorage{Creator: A(8), ForAddress: A(8), DurationDays: 30, Bytes: 3_000_000_000, PaymentDenom: "ujkl"})
		}
		if rc.Chance(0.6) {
			payOnce()
		}
		if rc.Chance(0.7) {
			c.DeliverAs(8, &oracletypes.MsgUpdateFeed{Creator: A(8), Name: sp.PriceFeed, Data: price()})
			if rc.Chance(0.3) {
				payOnce()
				c.DeliverAs(8, &oracletypes.MsgUpdateFeed{Creator: A(8), Name: sp.PriceFeed, Data: price()})
			}
		}
		for _, w := range files {
			for _, p := range provs {
				if keep[p] && rc.Chance(0.7) {
					s.ProveHonest(p, w)
				}
			}
		}
	}
	c.EndAndCommit()
}
