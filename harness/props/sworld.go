package props

import (
	"fmt"
	"math/rand"
	"sort"
	"strconv"
	"strings"
	"time"

	"github.com/cosmos/cosmos-sdk/codec"
	sdk "github.com/cosmos/cosmos-sdk/types"
	"github.com/cosmos/cosmos-sdk/types/query"
	banktypes "github.com/cosmos/cosmos-sdk/x/bank/types"

	"jkverif/chain"
	"jkverif/gen"

	storagetypes "github.com/jackalLabs/canine-chain/v4/x/storage/types"
)

// SW is the "storage world": a chain plus the client-side knowledge honest
// actors have (file bytes), with helpers for the storage messages and for
// observing storage state through the module's gRPC queries.
type SW struct {
	rc     *RunCtx
	c      *chain.Chain
	Files  []*WFile
	failed bool
	// ReqProofInterval, when non-zero, is sent as MsgPostFile.ProofInterval by the next PostFile (a client-requested
	// value; the proof window of a file is the network parameter at post time)
	ReqProofInterval int64
	pgTick           int
	// RollbackProb: probability that a plan purchase, post or delete travels in one transaction with a second message of
	// the same signer that is bound to fail (a transfer of more than exists): the whole transaction is refused, the
	// helpers report the failure, and nothing of the first message may remain.
	RollbackProb float64
	// UpperProb: probability that the creator of a plan purchase or post spells its own address in upper case
	UpperProb float64
}

func (s *SW) deliver(i int, msg sdk.Msg) chain.TxResult {
	if m, ok := msg.(*storagetypes.MsgBuyStorage); ok && s.UpperProb > 0 && m.ForAddress != m.Creator && s.rc.Chance(0.4) {
		// a plan paid for somebody else, the beneficiary's address written in upper case (the same account)
		m.ForAddress = strings.ToUpper(m.ForAddress)
		s.rc.Count("gift_purchases_with_upper_case_beneficiary", 1)
	}
	if s.UpperProb > 0 && s.rc.Chance(s.UpperProb) {
		// the signer spells its own address in upper case (valid bech32, same account, same signature)
		switch m := msg.(type) {
		case *storagetypes.MsgPostFile:
			m.Creator = strings.ToUpper(m.Creator)
			s.rc.Count("upper_case_creator_messages", 1)
		case *storagetypes.MsgBuyStorage:
			m.Creator = strings.ToUpper(m.Creator)
			s.rc.Count("upper_case_creator_messages", 1)
		}
	}
	if s.RollbackProb > 0 && s.rc.Chance(s.RollbackProb) {
		huge, _ := sdk.NewIntFromString("1000000000000000000000000000000")
		s.rc.Count("messages_in_a_transaction_that_rolls_back", 1)
		return s.c.DeliverAs(i, msg, bankSend(s.acc(i).Addr, s.acc((i+1)%len(s.c.Accs)).Addr, sdk.NewCoins(sdk.NewCoin("ujkl", huge))))
	}
	return s.c.DeliverAs(i, msg)
}

// paging: a client paging through the storage listings this property is about sees what the one-shot listings show
// (paging.go). Run every 4th block.
func (s *SW) paging() {
	s.pgTick++
	if s.pgTick%4 != 1 {
		return
	}
	mk := func(rpc string, req func() codec.ProtoMarshaler, resp codec.ProtoMarshaler) listQuery {
		return listQuery{Path: "/canine_chain.storage.Query/" + rpc, Req: req, Resp: resp}
	}
	files := mk("AllFiles", func() codec.ProtoMarshaler { return &storagetypes.QueryAllFiles{} }, &storagetypes.QueryAllFilesResponse{})
	proofs := mk("AllProofs", func() codec.ProtoMarshaler { return &storagetypes.QueryAllProofs{} }, &storagetypes.QueryAllProofsResponse{})
	var qs []listQuery
	switch s.rc.Prop {
	case "C17":
		qs = append(qs, files, proofs)
		if len(s.Files) > 0 {
			w := s.Files[(s.pgTick/4)%len(s.Files)]
			qs = append(qs,
				mk("AllFilesByOwner", func() codec.ProtoMarshaler { return &storagetypes.QueryAllFilesByOwner{Owner: w.OwnerAddr} }, &storagetypes.QueryAllFilesByOwnerResponse{}),
				mk("AllFilesByMerkle", func() codec.ProtoMarshaler { return &storagetypes.QueryAllFilesByMerkle{Merkle: w.F.Root()} }, &storagetypes.QueryAllFilesByMerkleResponse{}))
		}
	case "C07":
		qs = append(qs, files, mk("AllStoragePaymentInfo", func() codec.ProtoMarshaler { return &storagetypes.QueryAllStoragePaymentInfo{} }, &storagetypes.QueryAllStoragePaymentInfoResponse{}))
	case "C12":
		qs = append(qs, mk("Gauges", func() codec.ProtoMarshaler { return &storagetypes.QueryAllGauges{} }, &storagetypes.QueryAllGaugesResponse{}))
	case "C01", "C02", "C03":
		qs = append(qs, files, proofs)
	}
	checkPaging(s.rc, s.c, qs, s.pgTick/4)
}

type WFile struct {
	F         *gen.File
	Owner     int
	OwnerAddr string
	Start     int64
	MaxProofs int64
	Expires   int64
	Size      int64 // size declared on chain
	Window    int64 // the network's ProofWindow parameter when the file was posted
}

func (w *WFile) Key() string { return fmt.Sprintf("%x/%s/%d", w.F.Root(), w.OwnerAddr, w.Start) }

func storageParams(proofWindow, checkWindow, chunk int64) *storagetypes.Params {
	p := storagetypes.DefaultParams()
	p.ProofWindow = proofWindow
	p.CheckWindow = checkWindow
	p.ChunkSize = chunk
	p.DepositAccount = sdk.AccAddress([]byte("storage-deposit-acct")).String()
	return &p
}

func randBytes(r *rand.Rand, n int64) []byte {
	b := make([]byte, n)
	r.Read(b)
	return b
}

// ---- observation through queries

const qPage = 100000

func pg() *query.PageRequest { return &query.PageRequest{Limit: qPage} }

func (s *SW) q(path string, req, resp codec.ProtoMarshaler) error {
	return s.c.GRPC("/canine_chain.storage.Query/"+path, req, resp)
}

type StorageObs struct {
	Files     []storagetypes.UnifiedFile
	Proofs    map[string]storagetypes.FileProof // by proof key
	Providers map[string]storagetypes.Providers
	Gauges    []storagetypes.PaymentGauge
	Plans     map[string]storagetypes.StoragePaymentInfo
	Height    int64
}

func proofKey(p storagetypes.FileProof) string {
	return string(storagetypes.ProofKey(p.Prover, p.Merkle, p.Owner, p.Start))
}

func fileKey(f storagetypes.UnifiedFile) string {
	return fmt.Sprintf("%x/%s/%d", f.Merkle, f.Owner, f.Start)
}

func (s *SW) Observe() (*StorageObs, error) {
	o := &StorageObs{Proofs: map[string]storagetypes.FileProof{}, Providers: map[string]storagetypes.Providers{}, Plans: map[string]storagetypes.StoragePaymentInfo{}, Height: s.c.Height}
	var fr storagetypes.QueryAllFilesResponse
	if err := s.q("AllFiles", &storagetypes.QueryAllFiles{Pagination: pg()}, &fr); err != nil {
		return nil, err
	}
	o.Files = fr.Files
	var pr storagetypes.QueryAllProofsResponse
	if err := s.q("AllProofs", &storagetypes.QueryAllProofs{Pagination: pg()}, &pr); err != nil {
		return nil, err
	}
	for _, p := range pr.Proofs {
		o.Proofs[proofKey(p)] = p
	}
	var vr storagetypes.QueryAllProvidersResponse
	if err := s.q("AllProviders", &storagetypes.QueryAllProviders{Pagination: pg()}, &vr); err != nil {
		return nil, err
	}
	for _, p := range vr.Providers {
		o.Providers[p.Address] = p
	}
	var gr storagetypes.QueryAllGaugesResponse
	if err := s.q("Gauges", &storagetypes.QueryAllGauges{Pagination: pg()}, &gr); err != nil {
		return nil, err
	}
	o.Gauges = gr.Gauges
	var ir storagetypes.QueryAllStoragePaymentInfoResponse
	if err := s.q("AllStoragePaymentInfo", &storagetypes.QueryAllStoragePaymentInfo{Pagination: pg()}, &ir); err != nil {
		return nil, err
	}
	for _, p := range ir.StoragePaymentInfo {
		o.Plans[p.Address] = p
	}
	return o, nil
}

func (o *StorageObs) File(key string) *storagetypes.UnifiedFile {
	for i := range o.Files {
		if fileKey(o.Files[i]) == key {
			return &o.Files[i]
		}
	}
	return nil
}

func proverOfKey(pk string) string { return strings.Split(pk, "/")[0] }

func burned(p storagetypes.Providers) int64 {
	v, _ := strconv.ParseInt(p.BurnedContracts, 10, 64)
	return v
}

// ---- actions

func (s *SW) acc(i int) chain.Acc { return s.c.Accs[i] }

func (s *SW) BuyPlan(buyer, forAcc int, bytes, days int64, referral string) chain.TxResult {
	return s.deliver(buyer, &storagetypes.MsgBuyStorage{Creator: s.acc(buyer).Bech, ForAddress: s.acc(forAcc).Bech,
		DurationDays: days, Bytes: bytes, PaymentDenom: "ujkl", Referral: referral})
}

// PostFile posts f as a plan-paid (expires==0) or pay-once file. declaredSize<0 means the true size.
func (s *SW) PostFile(owner int, f *gen.File, maxProofs, expires, declaredSize int64) (*WFile, chain.TxResult) {
	size := f.Size()
	if declaredSize >= 0 {
		size = declaredSize
	}
	return s.PostFileSized(owner, f, maxProofs, expires, size)
}

// PostFileSized posts f declaring exactly `size` bytes (also zero or negative ones).
func (s *SW) PostFileSized(owner int, f *gen.File, maxProofs, expires, size int64) (*WFile, chain.TxResult) {
	netWindow := s.c.App.StorageKeeper.GetParams(s.c.Ctx()).ProofWindow
	r := s.deliver(owner, &storagetypes.MsgPostFile{Creator: s.acc(owner).Bech, Merkle: f.Root(), FileSize: size,
		ProofInterval: s.ReqProofInterval, ProofType: 0, MaxProofs: maxProofs, Expires: expires, Note: "{}"})
	s.ReqProofInterval = 0
	if !r.OK() {
		return nil, r
	}
	var resp storagetypes.MsgPostFileResponse
	start := s.c.Height
	if err := r.MsgResponse(0, &resp); err == nil {
		start = resp.StartBlock
	}
	w := &WFile{F: f, Owner: owner, OwnerAddr: s.acc(owner).Bech, Start: start, MaxProofs: maxProofs, Expires: expires, Size: size, Window: netWindow}
	s.Files = append(s.Files, w)
	return w, r
}

// Challenge returns the chunk index the chain currently challenges prover with for w (0 for a newcomer), and whether a proof record exists.
func (s *SW) Challenge(prover string, w *WFile) (int64, bool) {
	var resp storagetypes.QueryProofResponse
	err := s.q("Proof", &storagetypes.QueryProof{ProviderAddress: prover, Merkle: w.F.Root(), Owner: w.OwnerAddr, Start: w.Start}, &resp)
	if err != nil {
		return 0, false
	}
	return resp.Proof.ChunkToProve, true
}

func (s *SW) ProofRecord(prover string, w *WFile) (storagetypes.FileProof, bool) {
	var resp storagetypes.QueryProofResponse
	err := s.q("Proof", &storagetypes.QueryProof{ProviderAddress: prover, Merkle: w.F.Root(), Owner: w.OwnerAddr, Start: w.Start}, &resp)
	if err != nil {
		return storagetypes.FileProof{}, false
	}
	return resp.Proof, true
}

type ProofResult struct {
	Tx      chain.TxResult
	Success bool
	ErrMsg  string
	Idx     int64
}

// SubmitProof delivers a MsgPostProof with the given payload.
func (s *SW) SubmitProof(prover int, merkle []byte, owner string, start, toProve int64, item, hashList []byte) ProofResult {
	r := s.c.DeliverAs(prover, &storagetypes.MsgPostProof{Creator: s.acc(prover).Bech, Item: item, HashList: hashList,
		Merkle: merkle, Owner: owner, Start: start, ToProve: toProve})
	pr := ProofResult{Tx: r, Idx: toProve}
	if r.OK() {
		var resp storagetypes.MsgPostProofResponse
		if err := r.MsgResponse(0, &resp); err == nil {
			pr.Success = resp.Success
			pr.ErrMsg = resp.ErrorMessage
		}
	} else {
		pr.ErrMsg = r.Log
	}
	return pr
}

// ProveHonest submits the proof an honest holder of the file bytes derives for
// the chunk the chain currently challenges it with.
func (s *SW) ProveHonest(prover int, w *WFile) ProofResult {
	idx, _ := s.Challenge(s.acc(prover).Bech, w)
	if idx < 0 || idx >= w.F.NChunks() {
		return ProofResult{Idx: idx, ErrMsg: fmt.Sprintf("challenged chunk %d does not exist (file has %d chunks)", idx, w.F.NChunks())}
	}
	item, hl := w.F.Proof(idx)
	return s.SubmitProof(prover, w.F.Root(), w.OwnerAddr, w.Start, idx, item, hl)
}

func (s *SW) InitProvider(i int, ip string) chain.TxResult {
	return s.c.DeliverAs(i, &storagetypes.MsgInitProvider{Creator: s.acc(i).Bech, Ip: ip, Keybase: "kb", TotalSpace: 1_000_000_000_000})
}

func (s *SW) DeleteFile(i int, w *WFile) chain.TxResult {
	return s.deliver(i, &storagetypes.MsgDeleteFile{Creator: s.acc(i).Bech, Merkle: w.F.Root(), Start: w.Start})
}

// ---- reward-block observation

type RewardObs struct {
	Height    int64
	Pre, Post *StorageObs
	PreBal    chain.Balances
	PostBal   chain.Balances
	Events    []chain.Event
	Released  sdk.Coins            // gauge escrow -> storage module
	GaugeOut  map[string]sdk.Coins // per escrow address
	Paid      map[string]sdk.Coins // storage module -> account
	Counted   map[string]int64     // from the verif hook
	TotalSize int64
	HookSeen  bool
	IsReward  bool
}

// gaugeAddrs maps escrow address -> gauge for the gauges in o.
func gaugeAddrs(o *StorageObs) map[string]storagetypes.PaymentGauge {
	m := map[string]storagetypes.PaymentGauge{}
	for _, g := range o.Gauges {
		a, err := storagetypes.GetGaugeAccount(g)
		if err == nil {
			m[a.String()] = g
		}
	}
	return m
}

func storageModAddr() string { return chain.ModuleAddr(storagetypes.ModuleName).String() }

func sortedKeys(m map[string]int64) []string {
	var out []string
	for k := range m {
		out = append(out, k)
	}
	sort.Strings(out)
	return out
}

func dur(d int64) time.Duration { return time.Duration(d) * time.Second }

func bankSend(from, to sdk.AccAddress, amt sdk.Coins) sdk.Msg {
	return banktypes.NewMsgSend(from, to, amt)
}

func sortStrings(xs []string) { sort.Strings(xs) }

// ProveHonestUpper is ProveHonest with the prover spelling its own address in upper case (valid bech32, same signer).
func (s *SW) ProveHonestUpper(prover int, w *WFile) ProofResult {
	up := strings.ToUpper(s.acc(prover).Bech)
	idx, _ := s.Challenge(up, w)
	if idx < 0 || idx >= w.F.NChunks() {
		return ProofResult{Idx: idx, ErrMsg: "challenged chunk does not exist"}
	}
	item, hl := w.F.Proof(idx)
	r := s.c.DeliverAs(prover, &storagetypes.MsgPostProof{Creator: up, Item: item, HashList: hl, Merkle: w.F.Root(), Owner: w.OwnerAddr, Start: w.Start, ToProve: idx})
	pr := ProofResult{Tx: r, Idx: idx}
	if r.OK() {
		var resp storagetypes.MsgPostProofResponse
		if err := r.MsgResponse(0, &resp); err == nil {
			pr.Success = resp.Success
			pr.ErrMsg = resp.ErrorMessage
		}
	}
	return pr
}
