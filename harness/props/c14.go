package props

import (
	"fmt"
	"strings"
	"time"

	"github.com/cosmos/cosmos-sdk/types/query"

	"jkverif/chain"
	"jkverif/gen"

	storagetypes "github.com/jackalLabs/canine-chain/v4/x/storage/types"
)

// C14 – attestations and reports act only on a quorum of the providers named on the form.

var c14Pairs [][2]int64

func init() {
	for size := int64(1); size <= 6; size++ {
		for min := int64(0); min <= size; min++ {
			c14Pairs = append(c14Pairs, [2]int64{size, min})
		}
	}
	Register(&Prop{
		ID:    "C14",
		Title: "Attestations and reports act only on a quorum of the providers named on the form",
		Cases: func(t string) int { return tierN(t, 27*7, 27*7*80) },
		Run:   runC14,
		Rule: "case = one (form size 1..6, minimum 0..size) pair x one of 7 signature-sequence templates (one short of the minimum with repeats and unnamed signers (must never act); distinct named in order; every named twice; unnamed providers + the prover + a non-provider first; one named repeated min+2 times then the rest; signatures before the form exists and after it was consumed; PRNG order with repeats) x a provider population of size+1..9 with shared and distinct domains, run once for an attestation form and once for a report form on the same (prover, file); in the report phase a second report form on another (prover, file) with min-1 signatures is outstanding in 60% of the cases with min >= 2, and in 35% the chain is exported and restarted from its genesis file at a PRNG point of the signature sequence; the (pair x template) grid is enumerated completely by the case index, populations and orders are drawn from the PRNG; " +
			"oracle after every Attest / Report / Request* message from queries Attestation / Report / Proof / File: the reference model's set of distinct named signers decides exactly when LastProven is refreshed (attest) or the prover is unlisted (report) and when the form disappears; nothing else about the proof, the file or the prover list may change; form composition at creation (size, distinct, registered providers holding >=1 proof, never the prover); " +
			"non-trivial signature = (kind, size, min, template, quorum reached?)",
		Assumptions: []string{
			"a quorum message arriving when the file or the prover's listing no longer exists has no effect (the statement only says when the action may happen)",
		},
		MinNonTriv: 120,
		Exhaustive: func(t string) bool { return false },
	})
}

type c14Form struct {
	named  map[string]bool
	signed map[string]bool
	exists bool
}

func runC14(rc *RunCtx) {
	pair := c14Pairs[rc.Case%len(c14Pairs)]
	size, min := pair[0], pair[1]
	tmpl := (rc.Case / len(c14Pairs)) % 7
	W := int64(30)
	sp := storageParams(W, 1000, 1024)
	sp.AttestFormSize = size
	sp.AttestMinToPass = min
	sp.CollateralPrice = 1000
	// accounts: 0 owner, 1 prover P, 2..2+npop-1 other providers, last = non-provider stranger
	sameDom := rc.Intn(3)                      // providers sharing P's domain (never eligible)
	npop := int(size) + rc.Intn(int(9-size)+1) // eligible providers
	// small networks (chosen by case number, the other cases stay what they were): one eligible provider fewer than the form
	// has slots. Whatever the chain does then - refuse the form, or open a shorter one - a form never names anybody twice and
	// a quorum is a quorum of distinct named signers
	if size >= 2 && (rc.Case/len(c14Pairs))%5 == 3 {
		npop = int(size) - 1
		rc.Count("networks_smaller_than_the_form", 1)
	}
	nacc := 2 + npop + sameDom + 1
	c, err := chain.New(chain.Config{Seed: rc.Seed, NAcc: nacc, Storage: sp})
	if err != nil {
		rc.Abort("init: " + err.Error())
		return
	}
	defer c.Close()
	s := &SW{rc: rc, c: c}
	nb := func() bool {
		if _, err := c.NextBlock(6 * time.Second); err != nil {
			rc.Abort("block: " + err.Error())
			return false
		}
		return true
	}
	if !nb() {
		return
	}
	if r := s.BuyPlan(0, 0, 5_000_000_000, 60, ""); !r.OK() {
		rc.Abort("buy: " + r.Log)
		return
	}
	P := 1
	stranger := nacc - 1
	var eligible, shared []int
	// the prover's own address sometimes carries an explicit port (so do some of the others): the port is not part of the host
	pURL := "https://node1.pdomain.example"
	if rc.Chance(0.4) {
		pURL = fmt.Sprintf("https://node1.pdomain.example:%d", 3000+rc.Intn(1000))
		rc.Count("prover_url_with_port", 1)
	}
	s.InitProvider(P, pURL)
	for i := 0; i < npop; i++ {
		a := 2 + i
		ip := fmt.Sprintf("https://n%d.dom%d.example", a, a)
		if rc.Chance(0.2) && i > 0 {
			ip = fmt.Sprintf("https://n%d.dom%d.example", a, 2) // shares a domain with another eligible provider, not with P
		} else if rc.Chance(0.25) {
			ip = fmt.Sprintf("http://10.%d.%d.%d:3333", rc.Intn(200), a, 1+rc.Intn(250)) // reachable under a bare IPv4 address
			rc.Count("providers_under_ipv4_literals", 1)
		}
		if strings.HasPrefix(ip, "https://") && rc.Chance(0.3) {
			ip += fmt.Sprintf(":%d", 3000+rc.Intn(1000))
		}
		if r := s.InitProvider(a, ip); !r.OK() {
			rc.Abort("provider: " + r.Log)
			return
		}
		eligible = append(eligible, a)
	}
	for i := 0; i < sameDom; i++ {
		a := 2 + npop + i
		s.InitProvider(a, fmt.Sprintf("https://other%d.pdomain.example", a))
		shared = append(shared, a)
	}
	fF := gen.NewFile(randBytes(rc.Rng, int64(1+rc.Intn(3000))), 1024)
	wF, r := s.PostFile(0, fF, 3, 0, -1)
	if !r.OK() {
		rc.Abort("post: " + r.Log)
		return
	}
	fG := gen.NewFile(randBytes(rc.Rng, int64(1+rc.Intn(3000))), 1024)
	wG, r := s.PostFile(0, fG, int64(nacc), 0, -1)
	if !r.OK() {
		rc.Abort("post: " + r.Log)
		return
	}
	if pr := s.ProveHonest(P, wF); !pr.Success {
		rc.Abort("P cannot join: " + pr.ErrMsg)
		return
	}
	// every other provider holds a proof on G; one eligible provider (sometimes) holds none and must then never be named
	noProof := -1
	if npop > int(size) && rc.Chance(0.4) {
		noProof = eligible[rc.Intn(len(eligible))]
	}
	// one eligible provider V holds its only proof on a third file H; H is deleted later, in the same block as (and
	// between) two form requests: from then on V holds no proof and must never be named
	vLoses := -1
	var wH *WFile
	if npop > int(size)+1 && rc.Chance(0.5) {
		for _, a := range eligible {
			if a != noProof {
				vLoses = a
				break
			}
		}
	}
	if vLoses >= 0 {
		fH := gen.NewFile(randBytes(rc.Rng, int64(1+rc.Intn(3000))), 1024)
		var rH chain.TxResult
		if wH, rH = s.PostFile(0, fH, 2, 0, -1); !rH.OK() {
			rc.Abort("post: " + rH.Log)
			return
		}
	}
	for _, a := range append(append([]int{}, eligible...), shared...) {
		if a == noProof {
			continue
		}
		if a == vLoses && wH != nil {
			if pr := s.ProveHonest(a, wH); !pr.Success {
				rc.Abort("provider cannot join H: " + pr.ErrMsg)
				return
			}
			continue
		}
		if pr := s.ProveHonest(a, wG); !pr.Success {
			rc.Abort("provider cannot join G: " + pr.ErrMsg)
			return
		}
	}
	// one or two eligible providers hold a second proof, on a file K of their own: a provider is one candidate however many
	// proofs it holds
	if rc.Chance(0.6) {
		fK := gen.NewFile(randBytes(rc.Rng, int64(1+rc.Intn(3000))), 1024)
		wK, rK := s.PostFile(0, fK, 3, 0, -1)
		if !rK.OK() {
			rc.Abort("post: " + rK.Log)
			return
		}
		nk := 0
		for _, a := range eligible {
			if a == noProof || a == vLoses || nk == 2 || rc.Chance(0.3) {
				continue
			}
			if pr := s.ProveHonest(a, wK); !pr.Success {
				rc.Abort("provider cannot join K: " + pr.ErrMsg)
				return
			}
			nk++
		}
		rc.Count("providers_with_two_proofs", nk)
	}
	if !nb() || !nb() {
		return
	}
	pAddr := c.Accs[P].Bech
	noProofAlso := -1
	_ = noProofAlso

	for _, kind := range []string{"attest", "report"} {
		form := &c14Form{named: map[string]bool{}, signed: map[string]bool{}}
		reached := false
		// observation helpers
		formExists := func() bool {
			if kind == "attest" {
				var resp storagetypes.QueryAttestationResponse
				return s.q("Attestation", &storagetypes.QueryAttestation{Prover: pAddr, Merkle: fF.Root(), Owner: wF.OwnerAddr, Start: wF.Start}, &resp) == nil
			}
			var resp storagetypes.QueryReportResponse
			return s.q("Report", &storagetypes.QueryReport{Prover: pAddr, Merkle: fF.Root(), Owner: wF.OwnerAddr, Start: wF.Start}, &resp) == nil
		}
		type obs struct {
			proofRec string
			listed   bool
			file     string
			form     bool
			lastProv int64
		}
		observe := func() obs {
			var o obs
			if p, ok := s.ProofRecord(pAddr, wF); ok {
				bz, _ := p.Marshal()
				o.proofRec = string(bz)
				o.lastProv = p.LastProven
			}
			var fr storagetypes.QueryFileResponse
			if s.q("File", &storagetypes.QueryFile{Merkle: fF.Root(), Owner: wF.OwnerAddr, Start: wF.Start}, &fr) == nil {
				o.file = strings.Join(fr.File.Proofs, ",")
				for _, pk := range fr.File.Proofs {
					if proverOfKey(pk) == pAddr {
						o.listed = true
					}
				}
			}
			o.form = formExists()
			return o
		}
		sign := func(who int, why string) {
			before := observe()
			var tx chain.TxResult
			if kind == "attest" {
				tx = c.DeliverAs(who, &storagetypes.MsgAttest{Creator: c.Accs[who].Bech, Prover: pAddr, Merkle: fF.Root(), Owner: wF.OwnerAddr, Start: wF.Start})
			} else {
				tx = c.DeliverAs(who, &storagetypes.MsgReport{Creator: c.Accs[who].Bech, Prover: pAddr, Merkle: fF.Root(), Owner: wF.OwnerAddr, Start: wF.Start})
			}
			after := observe()
			rc.Eval(1)
			addr := c.Accs[who].Bech
			act := false
			if form.exists && form.named[addr] {
				form.signed[addr] = true
				if int64(len(form.signed)) >= min && before.listed {
					act = true
				}
			}
			rc.Logf("h=%d %s by acc%d (%s) named=%v signed=%d/%d -> code=%d; model act=%v", c.Height, kind, who, why, form.named[addr], len(form.signed), min, tx.Code, act)
			if act {
				reached = true
				form.exists = false
				if after.form {
					rc.Fail("C14/"+kind+"/form-not-consumed", "quorum of %d reached by %d distinct named signers but the form still exists", min, len(form.signed))
				}
				if kind == "attest" {
					if after.lastProv != c.Height {
						rc.Fail("C14/attest/deadline-not-refreshed", "quorum reached at h=%d but Proof.LastProven is %d (before %d)", c.Height, after.lastProv, before.lastProv)
					}
					if after.file != before.file {
						rc.Fail("C14/attest/prover-list-changed", "attestation quorum changed the prover list %q -> %q", before.file, after.file)
					}
				} else {
					if after.listed {
						rc.Fail("C14/report/prover-not-removed", "report quorum of %d reached but the prover is still listed", min)
					}
					want := removeProver(before.file, pAddr)
					if after.file != want {
						rc.Fail("C14/report/other-provers-changed", "report quorum changed the prover list %q -> %q, expected %q", before.file, after.file, want)
					}
				}
				return
			}
			// no action allowed
			if after.proofRec != before.proofRec {
				rc.Fail("C14/"+kind+"/proof-changed-without-quorum", "h=%d: %s by %s (named=%v, distinct named signers so far %d, minimum %d, form exists=%v) changed the prover's proof record (LastProven %d -> %d)", c.Height, kind, why, form.named[addr], len(form.signed), min, form.exists, before.lastProv, after.lastProv)
			}
			if after.file != before.file {
				rc.Fail("C14/"+kind+"/prover-list-changed-without-quorum", "h=%d: %s by %s (named=%v, signed %d, min %d, form exists=%v) changed the prover list %q -> %q", c.Height, kind, why, form.named[addr], len(form.signed), min, form.exists, before.file, after.file)
			}
			if after.form != before.form {
				rc.Fail("C14/"+kind+"/form-existence-changed-without-quorum", "h=%d: %s by %s changed form existence %v -> %v without a quorum", c.Height, kind, why, before.form, after.form)
			}
		}
		request := func() bool {
			before := observe()
			var provs []string
			var ok bool
			var emsg string
			if kind == "attest" {
				tx := c.DeliverAs(P, &storagetypes.MsgRequestAttestationForm{Creator: pAddr, Merkle: fF.Root(), Owner: wF.OwnerAddr, Start: wF.Start})
				var resp storagetypes.MsgRequestAttestationFormResponse
				if tx.OK() && tx.MsgResponse(0, &resp) == nil {
					provs, ok, emsg = resp.Providers, resp.Success, resp.Error
				} else {
					emsg = tx.Log
				}
			} else {
				who := []int{0, stranger, eligible[0]}[rc.Intn(3)]
				tx := c.DeliverAs(who, &storagetypes.MsgRequestReportForm{Creator: c.Accs[who].Bech, Prover: pAddr, Merkle: fF.Root(), Owner: wF.OwnerAddr, Start: wF.Start})
				var resp storagetypes.MsgRequestReportFormResponse
				if tx.OK() && tx.MsgResponse(0, &resp) == nil {
					provs, ok, emsg = resp.Providers, resp.Success, resp.Error
				} else {
					emsg = tx.Log
				}
			}
			after := observe()
			rc.Eval(1)
			if after.proofRec != before.proofRec || after.file != before.file {
				rc.Fail("C14/"+kind+"/request-changed-proof-or-list", "requesting a form changed the proof record or prover list")
			}
			if !ok {
				rc.Logf("h=%d request %s form failed: %s", c.Height, kind, clip(emsg))
				if after.form != before.form {
					rc.Fail("C14/"+kind+"/failed-request-changed-form", "failed form request changed form existence")
				}
				return false
			}
			rc.Logf("h=%d %s form created naming %d providers", c.Height, kind, len(provs))
			form.exists = true
			form.named = map[string]bool{}
			form.signed = map[string]bool{}
			if int64(len(provs)) != size {
				rc.Fail("C14/"+kind+"/form-size", "form names %d providers, AttestFormSize is %d", len(provs), size)
			}
			for _, a := range provs {
				if form.named[a] {
					rc.Fail("C14/"+kind+"/form-duplicate", "form names %s twice", a)
				}
				form.named[a] = true
				if a == pAddr {
					rc.Fail("C14/"+kind+"/form-names-prover", "form names the prover it concerns")
				}
				var pr storagetypes.QueryProviderResponse
				if s.q("Provider", &storagetypes.QueryProvider{Address: a}, &pr) != nil {
					rc.Fail("C14/"+kind+"/form-names-non-provider", "form names %s which is not a registered provider", a)
				}
				var pp storagetypes.QueryProofsByAddressResponse
				if s.q("ProofsByAddress", &storagetypes.QueryProofsByAddress{ProviderAddress: a, Pagination: &query.PageRequest{Limit: 10}}, &pp) != nil || len(pp.Proofs) == 0 {
					rc.Fail("C14/"+kind+"/form-names-proofless-provider", "form names %s which holds no proofs", a)
				}
			}
			return true
		}
		namedIdx := func() (named, unnamed []int) {
			for a := 2; a < stranger; a++ {
				if form.named[c.Accs[a].Bech] {
					named = append(named, a)
				} else {
					unnamed = append(unnamed, a)
				}
			}
			return
		}

		// report phase: a second report form on another (prover, file) pair, signed by fewer than the minimum, stays
		// outstanding next to the one under test; signatures on it must never count for the form under test
		decoy := false
		if kind == "report" && min >= 2 && len(eligible) >= 2 && rc.Chance(0.6) {
			D := eligible[rc.Intn(len(eligible))]
			if D != noProof {
				tx := c.DeliverAs(0, &storagetypes.MsgRequestReportForm{Creator: c.Accs[0].Bech, Prover: c.Accs[D].Bech, Merkle: fG.Root(), Owner: wG.OwnerAddr, Start: wG.Start})
				var resp storagetypes.MsgRequestReportFormResponse
				if tx.OK() && tx.MsgResponse(0, &resp) == nil && resp.Success {
					decoy = true
					signed := int64(0)
					for _, a := range resp.Providers {
						if signed >= min-1 {
							break
						}
						for i := 2; i < stranger; i++ {
							if c.Accs[i].Bech == a {
								c.DeliverAs(i, &storagetypes.MsgReport{Creator: a, Prover: c.Accs[D].Bech, Merkle: fG.Root(), Owner: wG.OwnerAddr, Start: wG.Start})
								signed++
							}
						}
					}
					rc.Logf("h=%d decoy report form against acc%d on the other file, %d of %d signatures", c.Height, D, signed, min)
					rc.Count("decoy_report_forms", 1)
				}
			}
		}
		if vLoses >= 0 && wH != nil && rc.Chance(0.6) {
			// same block: a form request on the other file (any account may ask for a report form), then V's only file is
			// deleted by its owner, then the form under test is requested
			D := eligible[len(eligible)-1]
			if D != vLoses && D != noProof {
				c.DeliverAs(stranger, &storagetypes.MsgRequestReportForm{Creator: c.Accs[stranger].Bech, Prover: c.Accs[D].Bech, Merkle: fG.Root(), Owner: wG.OwnerAddr, Start: wG.Start})
			}
			if r := s.DeleteFile(0, wH); r.OK() {
				rc.Logf("h=%d file H deleted: acc%d holds no proof any more", c.Height, vLoses)
				rc.Count("provider_lost_its_last_proof_between_two_form_requests", 1)
				noProofAlso = vLoses
			}
			wH = nil
		}
		if tmpl == 4 { // signatures before the form exists
			sign(eligible[0], "before-form")
			sign(stranger, "before-form stranger")
		}
		if !request() {
			rc.Count("form_request_failed", 1)
			continue
		}
		// a second request while the form exists must fail and change nothing
		if rc.Chance(0.3) {
			saved := *form
			if request() {
				rc.Fail("C14/"+kind+"/second-form-created", "a second form was created while one exists")
			}
			*form = saved
		}
		if !nb() {
			return
		}
		named, unnamed := namedIdx()
		rc.Rng.Shuffle(len(named), func(i, j int) { named[i], named[j] = named[j], named[i] })
		if kind == "attest" && min >= 2 && int64(len(named)) >= min && rc.Chance(0.15) {
			// "the prover was away when the last signature came": min-1 named providers sign; the prover is then removed from
			// the file by a report; the minimum-th named provider signs (nothing can be refreshed: the prover holds no proof
			// there); the prover enrols again; a provider that has signed already signs once more. A repeated signature has
			// no effect, whatever happened in between.
			for _, a := range named[:min-1] {
				sign(a, "named")
			}
			tx := c.DeliverAs(0, &storagetypes.MsgRequestReportForm{Creator: c.Accs[0].Bech, Prover: pAddr, Merkle: fF.Root(), Owner: wF.OwnerAddr, Start: wF.Start})
			var rr storagetypes.MsgRequestReportFormResponse
			if tx.OK() && tx.MsgResponse(0, &rr) == nil && rr.Success {
				for _, a := range rr.Providers {
					for i := 2; i < stranger; i++ {
						if c.Accs[i].Bech == a && observe().listed {
							c.DeliverAs(i, &storagetypes.MsgReport{Creator: a, Prover: pAddr, Merkle: fF.Root(), Owner: wF.OwnerAddr, Start: wF.Start})
						}
					}
				}
			}
			if !observe().listed {
				late := named[min-1]
				b0 := observe()
				c.DeliverAs(late, &storagetypes.MsgAttest{Creator: c.Accs[late].Bech, Prover: pAddr, Merkle: fF.Root(), Owner: wF.OwnerAddr, Start: wF.Start})
				if a0 := observe(); a0.file != b0.file || a0.proofRec != b0.proofRec {
					rc.Fail("C14/attest/prover-list-changed-without-quorum", "h=%d: a signature for a prover that is not on the file changed the prover list or a proof record (%q -> %q)", c.Height, b0.file, a0.file)
				}
				if pr := s.ProveHonest(P, wF); pr.Success {
					if !nb() || !nb() {
						return
					}
					again := named[0]
					b1 := observe()
					c.DeliverAs(again, &storagetypes.MsgAttest{Creator: c.Accs[again].Bech, Prover: pAddr, Merkle: fF.Root(), Owner: wF.OwnerAddr, Start: wF.Start})
					a1 := observe()
					rc.Eval(1)
					if a1.proofRec != b1.proofRec {
						rc.Fail("C14/attest/repeated-signature-had-effect", "h=%d: acc%d had signed the form already; its second signature (after the prover left the file and enrolled again) changed the prover's proof record (LastProven %d -> %d) with %d distinct named signers against a minimum of %d", c.Height, again, b1.lastProv, a1.lastProv, min-1, min)
					}
					rc.Count("repeated_signature_after_prover_was_away", 1)
					rc.NonTrivial(fmt.Sprintf("attest/size%d/min%d/prover-away-then-repeat", size, min))
				}
			}
			continue
		}
		var seq [][2]interface{}
		add := func(a int, why string) { seq = append(seq, [2]interface{}{a, why}) }
		switch tmpl {
		case 0, 4:
			for _, a := range named {
				add(a, "named")
			}
		case 1:
			for _, a := range named {
				add(a, "named")
				add(a, "named-repeat")
			}
		case 2:
			for _, a := range unnamed {
				add(a, "unnamed-provider")
			}
			add(P, "the-prover")
			add(stranger, "non-provider")
			for _, a := range unnamed {
				add(a, "unnamed-provider-repeat")
			}
			for _, a := range named {
				add(a, "named")
			}
		case 3:
			if len(named) > 0 {
				for i := int64(0); i < min+2; i++ {
					add(named[0], "named-same-repeated")
				}
				for _, a := range named[1:] {
					add(a, "named")
				}
			}
		case 5:
			// one short of the minimum: min-1 distinct named signers, each three times, plus every unnamed account
			for i := int64(0); i < min-1 && int(i) < len(named); i++ {
				add(named[i], "named")
				add(named[i], "named-repeat")
			}
			for _, a := range unnamed {
				add(a, "unnamed-provider")
			}
			add(P, "the-prover")
			add(stranger, "non-provider")
			for i := int64(0); i < min-1 && int(i) < len(named); i++ {
				add(named[i], "named-repeat")
			}
		default:
			pool := append(append(append([]int{}, named...), named...), unnamed...)
			pool = append(pool, P, stranger)
			rc.Rng.Shuffle(len(pool), func(i, j int) { pool[i], pool[j] = pool[j], pool[i] })
			for _, a := range pool {
				add(a, "prng")
			}
		}
		// report phase: the chain is (sometimes) exported and restarted from its genesis file in the middle of the
		// signature sequence. Report forms are part of the genesis; the model carries on unchanged. (Not done in the
		// attestation phase: proof records are not part of the genesis, a listed C19 finding, and an attestation acts
		// on the proof record.)
		restartAt := -1
		if kind == "report" && rc.Chance(0.35) {
			restartAt = rc.Intn(len(seq) + 1)
		}
		for i, st := range seq {
			if i == restartAt {
				if err := c.EndAndCommit(); err != nil {
					rc.Abort("commit before export: " + err.Error())
					return
				}
				exp, err := c.Export()
				if err != nil {
					rc.Abort("export: " + err.Error())
					return
				}
				c2, err := chain.NewFromExport(c, exp)
				if err != nil {
					rc.Abort("restart from the exported genesis: " + err.Error())
					return
				}
				defer c2.Close()
				c = c2
				s.c = c2
				rc.Logf("exported at h=%d and restarted from the genesis file (decoy form outstanding: %v)", c.Height, decoy)
				rc.Count("restarts_from_export", 1)
				if !nb() {
					return
				}
			}
			sign(st[0].(int), st[1].(string))
			if c.Dead {
				return
			}
			if i%3 == 2 || rc.Chance(0.3) {
				if !nb() {
					return
				}
			}
		}
		// after the form was consumed (or not): late signatures must have no effect
		if !nb() {
			return
		}
		if !form.exists {
			if len(named) > 0 {
				sign(named[0], "after-consumed")
			}
			sign(stranger, "after-consumed stranger")
		}
		rc.NonTrivial(fmt.Sprintf("%s/size%d/min%d/t%d/reached=%v/decoy=%v/restart=%v", kind, size, min, tmpl, reached, decoy, restartAt >= 0))
		rc.Count(kind+"_forms", 1)
		if kind == "attest" && !reached {
			// the report phase needs no left-over state from attest; forms are independent
		}
	}
	rc.Sample(map[string]interface{}{"size": size, "min": min, "template": tmpl, "eligible": npop, "same_domain": sameDom, "trace_tail": tail(rc.Trace(), 8)})
}

func removeProver(list string, addr string) string {
	if list == "" {
		return ""
	}
	var out []string
	for _, pk := range strings.Split(list, ",") {
		if proverOfKey(pk) != addr {
			out = append(out, pk)
		}
	}
	return strings.Join(out, ",")
}
