package props

import (
	"fmt"
	"sort"
	"time"

	sdk "github.com/cosmos/cosmos-sdk/types"

	"jkverif/chain"
	"jkverif/gen"

	oracletypes "github.com/jackalLabs/canine-chain/v4/x/oracle/types"
	storagetypes "github.com/jackalLabs/canine-chain/v4/x/storage/types"
)

// C12 – payment gauges stream linearly and never release more than the pro-rata deposit.

func init() {
	Register(&Prop{
		ID:    "C12",
		Title: "Payment gauges stream linearly and never release more than the pro-rata deposit",
		Cases: func(t string) int { return tierN(t, 140, 20000) },
		Run:   runC12,
		Rule: "case = one history creating 1-6 gauges (plan purchases and pay-once posts; amounts 1..1e15 via size, duration and price feed; durations 1 day..3 years; optionally 2-4 purchases with identical parameters in one block; 7% of the histories keep 101-140 gauges alive at once) followed by 20-45 blocks whose time steps are drawn from {0, 1us, 0.5s, 1s, 6s, 1h, 1d, 10d, 45d, 200d} with reward interval 2-5; " +
			"oracle per gauge per BeginBlock from balance snapshots (cross-checked with the transfer event log): nothing moves in non-reward blocks or outside [start,end]; inside, cumulative release == floor(deposited*(t-start)us/(end-start)us) +-1 per denom, non-decreasing, <= deposited (deposited = everything that entered the escrow account); " +
			"non-trivial signature = (amount magnitude, duration class, gauge kind, number of reward blocks seen inside the interval (capped), concurrent gauges)",
		Assumptions: []string{
			"in 20% of the histories a third party transfers tokens into escrow accounts of live gauges; for such a gauge 'the amount deposited for it' is what its purchase paid in: that part must keep streaming at least pro rata, the total released never exceeds what entered, and when the extra tokens leave is not judged",
			"deposits < 1e17 so 18-decimal ratio rounding stays inside the one-unit tolerance",
		},
		MinNonTriv: 40,
	})
}

func runC12(rc *RunCtx) {
	C := int64(2 + rc.Intn(4))
	sp := storageParams(20, C, 1024)
	feed := []string{"absent", "0.0001", "1000", "0.2", "absent", "0.000001"}[rc.Intn(6)]
	fund := sdk.NewCoins(sdk.NewInt64Coin("ujkl", 90_000_000_000_000_000))
	c, err := chain.New(chain.Config{Seed: rc.Seed, NAcc: 5, Storage: sp, Fund: fund})
	if err != nil {
		rc.Abort("init: " + err.Error())
		return
	}
	defer c.Close()
	s := &SW{rc: rc, c: c}
	gt := newGaugeTracker()
	stepDts := []time.Duration{0, time.Microsecond, 500 * time.Millisecond, time.Second, 6 * time.Second, time.Hour, 24 * time.Hour, 10 * 24 * time.Hour, 45 * 24 * time.Hour, 200 * 24 * time.Hour}
	step := func(dt time.Duration) bool {
		ro, err := s.StepBlock(dt)
		if err != nil {
			if _, ok := err.(*chain.PanicError); ok {
				rc.Abort("BeginBlock panic (C05 territory): " + err.Error())
			} else {
				rc.Abort(err.Error())
			}
			return false
		}
		gt.CheckBlock(rc, ro, c.Time)
		return true
	}
	tx := func(signer int, msg sdk.Msg) chain.TxResult {
		pre := c.Snapshot()
		r := c.DeliverAs(signer, msg)
		gt.AfterTx(rc, s, pre, c.Snapshot())
		return r
	}
	if !step(6 * time.Second) {
		return
	}
	if feed != "absent" {
		tx(4, &oracletypes.MsgCreateFeed{Creator: c.Accs[4].Bech, Name: sp.PriceFeed})
		tx(4, &oracletypes.MsgUpdateFeed{Creator: c.Accs[4].Bech, Name: sp.PriceFeed, Data: fmt.Sprintf(`{"price":"%s","24h_change":"0"}`, feed)})
	}
	const GB = int64(1_000_000_000)
	nG := 1 + rc.Intn(6)
	twin := rc.Chance(0.35)
	// crowd: more than a hundred gauges alive at once (every one of them has to stream at every reward block)
	crowd := rc.Chance(0.07)
	if crowd {
		nG = 101 + rc.Intn(40)
		rc.Count("histories_with_over_100_live_gauges", 1)
	}
	topUps := rc.Chance(0.2)
	created := 0
	mk := func() {
		if crowd || rc.Chance(0.35) {
			// pay-once post
			f := gen.NewFile(randBytes(rc.Rng, int64(1+rc.Intn(200))), 1024)
			ahead := []int64{14_400, 14_401, 30_000, 432_000, 5_256_000, 15_768_000}[rc.Intn(6)]
			size := []int64{1, 1_000_000, 3_000_000_000, 500_000_000_000}[rc.Intn(4)]
			who := rc.Intn(4)
			r := tx(who, &storagetypes.MsgPostFile{Creator: c.Accs[who].Bech, Merkle: f.Root(), FileSize: size, MaxProofs: int64(1 + rc.Intn(3)), Expires: c.Height + ahead, Note: "{}"})
			_ = r
			return
		}
		bytes := []int64{GB, 7 * GB, 5000 * GB, 20_000 * GB, 50_000 * GB}[rc.Intn(5)]
		days := []int64{30, 31, 90, 365, 366, 1095}[rc.Intn(6)]
		who := created % 4
		tx(who, &storagetypes.MsgBuyStorage{Creator: c.Accs[who].Bech, ForAddress: c.Accs[who].Bech, DurationDays: days, Bytes: bytes, PaymentDenom: "ujkl"})
		if twin {
			twin = false
			// 1-3 further purchases with identical parameters in the same block (2-4 equal gauges)
			extra := 1 + rc.Intn(3)
			for e := 1; e <= extra; e++ {
				other := (who + e) % 4
				rc.Logf("purchase with identical parameters in the same block by acc%d", other)
				tx(other, &storagetypes.MsgBuyStorage{Creator: c.Accs[other].Bech, ForAddress: c.Accs[other].Bech, DurationDays: days, Bytes: bytes, PaymentDenom: "ujkl"})
			}
			rc.Count(fmt.Sprintf("equal_purchases_in_one_block_%d", extra+1), 1)
		}
	}
	for created < nG {
		mk()
		created++
		if (!crowd && rc.Chance(0.5)) || (crowd && rc.Chance(0.03)) {
			if !step(stepDts[rc.Intn(len(stepDts))]) {
				return
			}
		}
	}
	if len(gt.g) == 0 {
		rc.Abort("no gauge was created")
		return
	}
	blocks := 20 + rc.Intn(26)
	// bias the time steps so that some lifetimes are traversed slowly and some are jumped over
	style := rc.Intn(3)
	for b := 0; b < blocks; b++ {
		var dt time.Duration
		switch style {
		case 0:
			dt = stepDts[rc.Intn(len(stepDts))]
		case 1:
			dt = stepDts[rc.Intn(6)]
		default:
			dt = stepDts[5+rc.Intn(5)]
		}
		if (c.Height+1)%C == 0 && rc.Chance(0.2) {
			// the coming reward block lands a fraction of a second after (or exactly at, or just before) the end of a live gauge
			var ends []time.Time
			for _, t := range gt.g {
				if t.End.After(c.Time) && t.End.Sub(c.Time) < 1200*24*time.Hour {
					ends = append(ends, t.End)
				}
			}
			if len(ends) > 0 {
				sort.Slice(ends, func(i, j int) bool { return ends[i].Before(ends[j]) })
				dt = ends[rc.Intn(len(ends))].Sub(c.Time) + []time.Duration{300 * time.Millisecond, 700 * time.Millisecond, 1, 0, -1}[rc.Intn(5)]
				if dt <= 0 {
					dt = time.Millisecond
				}
				rc.Count("reward_blocks_aimed_at_a_gauge_end", 1)
			}
		}
		if !step(dt) {
			return
		}
		if topUps && rc.Chance(0.15) && len(gt.g) > 0 {
			// a third party transfers tokens into the escrow account of a live gauge
			var addrs []string
			for a, t := range gt.g {
				if !c.Time.After(t.End) {
					addrs = append(addrs, a)
				}
			}
			if len(addrs) > 0 {
				sortStrings(addrs)
				to, _ := sdk.AccAddressFromBech32(addrs[rc.Intn(len(addrs))])
				amt := []int64{1, 1000, 1_000_000, 5_000_000_000, 1_000_000_000_000}[rc.Intn(5)]
				pre := c.Snapshot()
				c.DeliverAs(4, bankSend(c.Accs[4].Addr, to, sdk.NewCoins(sdk.NewInt64Coin("ujkl", amt))))
				gt.AfterTopUp(rc, s, pre, c.Snapshot())
				rc.Count("escrow_top_ups", 1)
			}
		}
		if rc.Chance(0.08) && (created < 8 || crowd) {
			mk()
			created++
		}
	}
	var samples []string
	for _, t := range gt.g {
		dcl := "<=31d"
		d := t.End.Sub(t.Start)
		switch {
		case d > 366*24*time.Hour:
			dcl = ">1y"
		case d > 31*24*time.Hour:
			dcl = "<=1y"
		case d <= 2*24*time.Hour:
			dcl = "<=2d"
		}
		rw := t.Rewards
		if rw > 3 {
			rw = 3
		}
		if t.Rewards >= 1 && !t.Deposit.IsZero() {
			rc.NonTrivial(fmt.Sprintf("amt%s/%s/rewards%d/conc%d", classifyMag(t.Deposit.AmountOf("ujkl").Int64()), dcl, rw, minInt(len(gt.g), 4)))
		}
		if len(samples) < 3 {
			samples = append(samples, fmt.Sprintf("gauge %s deposit %s recorded %s start %s end %s released %s in %d reward blocks", t.ID[:8], t.Deposit, t.Recorded, t.Start.Format(time.RFC3339), t.End.Format(time.RFC3339), t.CumRel, t.Rewards))
		}
	}
	rc.Sample(map[string]interface{}{"C": C, "feed": feed, "gauges": samples})
}

func minInt(a, b int) int {
	if a < b {
		return a
	}
	return b
}
