package props

import (
	"fmt"
	"math"
	"math/big"
	"reflect"
	"strings"

	sdk "github.com/cosmos/cosmos-sdk/types"

	"jkverif/chain"

	rnstypes "github.com/jackalLabs/canine-chain/v4/x/rns/types"
)

// C16 – registering a name charges the listed price and yields a live name for the term.
//
// Monitor: RW.judgeRegister (rnsworld.go) after every MsgRegisterName /
// MsgRegister; this file holds the registration-centred generator.

func init() {
	Register(&Prop{
		ID:    "C16",
		Title: "Registering a name charges the listed price and yields a live name for the term",
		Cases: func(t string) int { return tierN(t, 300, 30000) },
		Run:   runC16,
		Rule: "case = one chain with 3 names seeded in genesis (label lengths 1..8, both TLDs, owners a0..a3, expiry heights 3..11, optionally one long-lived) run for ~14-20 blocks; 14..24 registrations (MsgRegisterName and the deprecated MsgRegister, labels mixed-case, occasionally with a space) of seeded / fresh / previously registered names by owner / previous owner (made by a transfer) / stranger, at heights before, exactly at, one after and long after the seeded expiry, plus free names handed out by MsgInit and then paid for by their holder while still locked, with year counts from {1, 2..20, 0, -1, 1e12, 2^31, 2^62, MaxInt64, MinInt64} and, per price tier, ceil(k*2^64/price) (int64 product with the price wraps to a small positive amount) and ceil(k*2^64/5484530)+-1 (term in blocks wraps); accounts hold 1e24 ujkl so that even wrapped prices are affordable; " +
			"every registration is one oracle evaluation: on success registrant debited exactly years*GetCostOfName (big integers), protocol-liquidity account credited exactly that, nobody else (rns module included) moves, Name resolves to the registrant, fresh/expired name: Expires >= h + years*5484530, live name renewed by its owner: Expires grows by exactly years*5484530, live name (h <= Expires) never registered by a non-owner; on rejection nothing moves; " +
			"non-trivial signature = (label-length tier x TLD, year class, registrant role in {fresh, owner, prev-owner, stranger}, height relative to the previous expiry in {never-registered, long-before, one-before, at, one-after, long-after}, accepted/rejected)",
		Assumptions: []string{
			"the yearly 'listed' price is the keeper's exported GetCostOfName(label, tld) for the lower-cased, space-stripped name; the product with the year count is taken in big integers",
			"live(n,h) <=> registered and h <= Expires, the test every other rns handler applies",
			"the statement does not say which year counts must be rejected; an accepted registration is judged by the same formulas whatever the year count (0 and negative included)",
			"a year is 5 484 530 blocks (the constant the statement's 'Y years' refers to in this module)",
		},
		MinNonTriv: 300,
	})
}

// rnsCraftedYears returns year counts whose int64 product with the yearly
// price wraps around to a small positive amount: ceil(k*2^64/price).
func rnsCraftedYears(price int64) []int64 {
	var out []int64
	p := big.NewInt(price)
	two64 := new(big.Int).Lsh(big.NewInt(1), 64)
	for k := int64(1); k <= 4; k++ {
		n := new(big.Int).Mul(big.NewInt(k), two64)
		q, r := new(big.Int).QuoRem(n, p, new(big.Int))
		if r.Sign() != 0 {
			q.Add(q, big.NewInt(1))
		}
		if q.IsInt64() {
			out = append(out, q.Int64())
		}
	}
	return out
}

func runC16(rc *RunCtx) {
	const nacc = 4
	tlds := []string{"jkl", "ibc"}
	chain.SetBech32()
	keys := make([]string, nacc)
	for i := range keys {
		keys[i] = sdk.AccAddress(chain.DeriveKey(rc.Seed, i).PubKey().Address()).String()
	}
	used := map[string]bool{}
	fresh := func(n int) string {
		for {
			s := rnsLabel(rc, n) + "." + tlds[rc.Intn(2)]
			if !used[s] {
				used[s] = true
				return s
			}
		}
	}
	type seedName struct {
		full  string
		owner int
		exp   int64
	}
	var seeds []seedName
	var genesis []rnstypes.Names
	lens := []int{1, 2, 3, 4, 5, 6, 7, 8}
	rc.Rng.Shuffle(len(lens), func(i, j int) { lens[i], lens[j] = lens[j], lens[i] })
	for i := 0; i < 3; i++ {
		s := seedName{full: fresh(lens[i]), owner: rc.Intn(nacc), exp: int64(3 + rc.Intn(9))}
		if i == 2 && rc.Chance(0.4) {
			s.exp = 2*rnsYearBlocks + int64(rc.Intn(1000))
		}
		seeds = append(seeds, s)
		label, tld := rnsSplit(s.full)
		genesis = append(genesis, rnstypes.Names{Name: label, Tld: tld, Expires: s.exp, Value: keys[s.owner], Data: "{}", Subdomains: []*rnstypes.Names{}})
	}
	// one more account (index nacc), used only as a registrant that cannot pay
	c, err := chain.New(chain.Config{Seed: rc.Seed, NAcc: nacc + 1, Fund: c16Fund(), RnsNames: genesis})
	if err != nil {
		rc.Abort("init: " + err.Error())
		return
	}
	defer c.Close()
	for i := range keys {
		if keys[i] != c.Accs[i].Bech {
			rc.Abort("account derivation mismatch")
			return
		}
	}
	if _, err := c.BeginBlock(6e9); err != nil {
		rc.Abort("first block: " + err.Error())
		return
	}
	w, err := NewRW(rc, c)
	if err != nil {
		rc.Abort("observe: " + err.Error())
		return
	}
	for _, s := range seeds {
		rc.Logf("seeded %s owner a%d expires %d", s.full, s.owner, s.exp)
	}
	// the pauper keeps almost nothing; somebody else's open bid sits in the module account meanwhile (so the module
	// account is not empty when the pauper tries to register: a registration that cannot be paid for must still fail
	// and cost nothing)
	pauper := nacc
	{
		keep := rc.Pick([]int64{0, 1, 999, 5_000_000})
		for _, cn := range c.App.BankKeeper.GetAllBalances(c.Ctx(), c.Accs[pauper].Addr) {
			amt := cn.Amount
			if cn.Denom == rnsDenomA {
				amt = amt.SubRaw(keep)
			}
			if amt.IsPositive() {
				c.DeliverAs(pauper, bankSend(c.Accs[pauper].Addr, c.Accs[0].Addr, sdk.NewCoins(sdk.NewCoin(cn.Denom, amt))))
			}
		}
		if st, err := w.observe(); err == nil {
			w.st = st // balances moved by the drain are the new baseline
		}
		bid, _ := sdk.NewIntFromString("900000000000000000000")
		if _, ok := w.Do(1, &rnstypes.MsgBid{Creator: c.Accs[1].Bech, Name: seeds[0].full, Bid: sdk.NewCoin(rnsDenomA, bid)}); !ok {
			return
		}
	}
	idx := func(addr string) int {
		for i, a := range c.Accs {
			if a.Bech == addr {
				return i
			}
		}
		return -1
	}
	other := func(xs ...int) int {
		for t := 0; t < 30; t++ {
			i := rc.Intn(nacc)
			ok := true
			for _, x := range xs {
				if x == i {
					ok = false
				}
			}
			if ok {
				return i
			}
		}
		return 0
	}
	years := func(full string) int64 {
		r := rc.Intn(100)
		switch {
		case r < 25:
			return 1
		case r < 35:
			return 2
		case r < 42:
			return 5
		case r < 50:
			return int64(3 + rc.Intn(18))
		case r < 57:
			return 0
		case r < 62:
			return -1
		case r < 65:
			return 1_000_000_000_000
		case r < 69:
			// year counts whose length in blocks (years * 5484530) wraps past 2^64 onto a small positive number
			ys := rnsCraftedYears(5484530)
			y := ys[rc.Intn(2)]
			return y + int64(rc.Intn(3)) - 1
		case r < 75:
			return rc.Pick([]int64{1 << 31, 1 << 62, math.MaxInt64, math.MinInt64, -(1 << 40), 3_000_000})
		default:
			if p, err := rnsListedPrice(full); err == nil && p.Sign() > 0 {
				ys := rnsCraftedYears(p.Int64())
				if len(ys) > 0 {
					y := ys[rc.Intn(len(ys))]
					if rc.Chance(0.15) {
						y-- // just below the wrap: product is a huge value just under k*2^64
					}
					return y
				}
			}
			return 1
		}
	}
	spell := func(full string) string {
		s := full
		if rc.Chance(0.3) {
			s = rnsMixCase(rc, s)
		}
		if rc.Chance(0.04) {
			s = s[:1] + " " + s[1:] // rejected statelessly; a failed registration costs nothing
		}
		return s
	}
	register := func(i int, full string, y int64) bool {
		var m sdk.Msg
		if rc.Chance(0.25) {
			m = &rnstypes.MsgRegister{Creator: c.Accs[i].Bech, Name: spell(full), Years: y, Data: "{}"}
		} else {
			m = &rnstypes.MsgRegisterName{Creator: c.Accs[i].Bech, Name: spell(full), Years: y, Data: fmt.Sprintf(`{"n":%d}`, rc.Intn(100)), SetPrimary: rc.Chance(0.3)}
		}
		if rc.Chance(0.1) {
			// the registrant spells its own address in upper case (valid bech32, same signer, same account)
			if f := reflect.ValueOf(m).Elem().FieldByName("Creator"); f.IsValid() {
				f.SetString(strings.ToUpper(f.String()))
				rc.Count("registrations_with_upper_case_creator", 1)
			}
		}
		_, ok := w.Do(i, m)
		return ok
	}
	// registrant by role with respect to the current record of the name
	registrant := func(full string) int {
		P := w.st.Names[full]
		if P == nil {
			return rc.Intn(nacc)
		}
		o := idx(P.Owner)
		r := rc.Intn(100)
		switch {
		case r < 35 && o >= 0:
			return o
		case r < 55 && len(w.prev[full]) > 0:
			if i := idx(w.prev[full][len(w.prev[full])-1]); i >= 0 {
				return i
			}
		}
		return other(o)
	}
	pool := []string{}
	for _, s := range seeds {
		pool = append(pool, s.full)
	}
	maxShort := int64(0)
	for _, s := range seeds {
		if s.exp < 1000 && s.exp > maxShort {
			maxShort = s.exp
		}
	}
	last := maxShort + 3 + int64(rc.Intn(6))
	// free-name collision: somebody pays for the very name that MsgInit will hand out at height hInit; an account
	// that has not used Init yet sends MsgInit exactly then (a registration too: the live name must stay with its owner)
	hInit := int64(-1)
	if rc.Chance(0.25) {
		hInit = 2 + int64(rc.Intn(int(last)-1))
	}
	var freeNames []string
	for h := int64(1); h <= last; h++ {
		if h > 1 {
			if !w.Block() {
				return
			}
		}
		if hInit > 0 && h == hInit-1 {
			if !register(rc.Intn(nacc), rnstypes.MakeName(int(hInit), hInit)+".jkl", 1) {
				return
			}
		}
		if h == hInit {
			free := rnstypes.MakeName(int(hInit), hInit) + ".jkl"
			i := rc.Intn(nacc)
			if P := w.st.Names[free]; P != nil {
				i = other(idx(P.Owner))
			}
			if _, ok := w.Do(i, &rnstypes.MsgInit{Creator: c.Accs[i].Bech}); !ok {
				return
			}
		}
		// free names: an account that has not used Init yet takes the free name of this height; later on the holder of
		// a free name (still inside its lock period) pays for further years - a renewal like any other
		if h != hInit && h != hInit-1 && rc.Chance(0.15) {
			i := rc.Intn(nacc)
			free := rnstypes.MakeName(int(h), h) + ".jkl"
			if w.st.Names[free] == nil {
				if _, ok := w.Do(i, &rnstypes.MsgInit{Creator: c.Accs[i].Bech}); !ok {
					return
				}
				if P := w.st.Names[free]; P != nil {
					pool = append(pool, free)
					freeNames = append(freeNames, free)
				}
			}
		}
		if len(freeNames) > 0 && rc.Chance(0.35) {
			full := freeNames[rc.Intn(len(freeNames))]
			if P := w.st.Names[full]; P != nil {
				if o := idx(P.Owner); o >= 0 {
					if !register(o, full, rc.Pick([]int64{1, 1, 2, 5})) {
						return
					}
					rc.Count("free_name_renewals_by_holder", 1)
				}
			}
		}
		// owners attach records to their live names (a renewal later on extends a name with records like any other)
		if rc.Chance(0.25) && len(pool) > 0 {
			full := pool[rc.Intn(len(pool))]
			if P := w.st.Names[full]; P != nil && P.live(h) {
				if o := idx(P.Owner); o >= 0 {
					if _, ok := w.Do(o, &rnstypes.MsgAddRecord{Creator: c.Accs[o].Bech, Name: full, Record: rc.PickS([]string{"app", "www", "pay"}), Value: c.Accs[rc.Intn(nacc)].Bech, Data: "{}"}); !ok {
						return
					}
					// and renew right away or soon after
					if rc.Chance(0.5) {
						if !register(o, full, rc.Pick([]int64{1, 2})) {
							return
						}
					}
				}
			}
		}
		// an early transfer creates a previous owner distinct from the owner
		if h <= 2 {
			for _, s := range seeds {
				if P := w.st.Names[s.full]; P != nil && P.live(h) && rc.Chance(0.3) {
					if o := idx(P.Owner); o >= 0 {
						if _, ok := w.Do(o, &rnstypes.MsgTransfer{Creator: c.Accs[o].Bech, Name: s.full, Receiver: c.Accs[other(o)].Bech}); !ok {
							return
						}
					}
				}
			}
		}
		// targeted: seeded names around their expiry
		for _, s := range seeds {
			P := w.st.Names[s.full]
			if P == nil {
				continue
			}
			rel := h - P.Expires
			p := 0.06
			switch {
			case rel == -1:
				p = 0.35
			case rel == 0:
				p = 0.6
			case rel == 1:
				p = 0.5
			case rel > 1 && rel < 40:
				p = 0.2
			}
			if rc.Chance(p) {
				y := years(s.full)
				if rc.Chance(0.5) {
					y = rc.Pick([]int64{1, 2, 5})
				}
				if !register(registrant(s.full), s.full, y) {
					return
				}
			}
		}
		if rc.Chance(0.12) {
			full := fresh(3 + rc.Intn(6))
			pool = append(pool, full)
			if !register(pauper, full, rc.Pick([]int64{1, 1, 2})) {
				return
			}
			rc.Count("registrations_by_an_account_that_cannot_pay", 1)
		}
		// PRNG registrations: fresh names of every length tier, re-registrations of anything in the pool
		k := rc.Intn(3)
		for j := 0; j < k; j++ {
			var full string
			if rc.Chance(0.6) || len(pool) == 0 {
				full = fresh(1 + rc.Intn(8))
				pool = append(pool, full)
			} else {
				full = pool[rc.Intn(len(pool))]
			}
			if !register(registrant(full), full, years(full)) {
				return
			}
		}
	}
	if err := c.EndAndCommit(); err != nil {
		rc.Abort("last block: " + err.Error())
		return
	}
	rc.Sample(map[string]interface{}{"seeded": fmt.Sprintf("%+v", seeds), "final_height": c.Height, "first_steps": w.line})
}

// c16Fund makes every account rich enough (1e24 ujkl) to pay even the astronomically large exact prices of
// overflow-crafted year counts, so that the arithmetic paths behind them are exercised through the real bank keeper.
func c16Fund() sdk.Coins {
	whale, _ := sdk.NewIntFromString("1000000000000000000000000")
	return sdk.NewCoins(sdk.NewCoin(rnsDenomA, whale), sdk.NewInt64Coin(rnsDenomB, 1_000_000_000_000))
}
