package props

import (
	"bytes"
	"crypto/sha256"
	"encoding/json"
	"fmt"
	"time"

	sdk "github.com/cosmos/cosmos-sdk/types"
	banktypes "github.com/cosmos/cosmos-sdk/x/bank/types"
	"github.com/wealdtech/go-merkletree/v2"
	"github.com/wealdtech/go-merkletree/v2/sha3"

	"jkverif/chain"
	"jkverif/gen"

	"github.com/cosmos/cosmos-sdk/codec"
	"github.com/jackalLabs/canine-chain/v4/app"

	storagetypes "github.com/jackalLabs/canine-chain/v4/x/storage/types"
	storageutils "github.com/jackalLabs/canine-chain/v4/x/storage/utils"
)

// C02 – honest provers can always prove and are never dropped or burned.
//   part (a): challenge validity + acceptance of honest proofs, client/chain encoding agreement
//   part (b): window arithmetic, small-scope enumeration of proof schedules

type c02Sched struct {
	W, C, Phase int64
	Offs        [4]int64 // offset of the single proof inside windows 0..3
}

func c02Choices(W, C, phase, win int64) []int64 {
	if W <= 4 {
		out := make([]int64, W)
		for i := range out {
			out[i] = int64(i)
		}
		return out
	}
	// first, last, the block just before / at a reward height inside the window, middle
	set := map[int64]bool{0: true, W - 1: true, W / 2: true}
	// window `win` of a file started at phase: heights phase+win*W .. ; reward heights are multiples of C
	base := phase + win*W
	for o := int64(0); o < W; o++ {
		if (base+o)%C == 0 {
			set[o] = true
			if o > 0 {
				set[o-1] = true
			}
			break
		}
	}
	var out []int64
	for o := int64(0); o < W; o++ {
		if set[o] {
			out = append(out, o)
		}
	}
	return out
}

var c02Space []c02Sched

func c02Enumerate() []c02Sched {
	if c02Space != nil {
		return c02Space
	}
	var out []c02Sched
	for W := int64(2); W <= 7; W++ {
		for C := int64(2); C <= 9; C++ {
			for ph := int64(0); ph < C; ph++ {
				ch := [4][]int64{}
				for w := int64(0); w < 4; w++ {
					ch[w] = c02Choices(W, C, ph, w)
				}
				for _, a := range ch[0] {
					for _, b := range ch[1] {
						for _, c := range ch[2] {
							for _, d := range ch[3] {
								out = append(out, c02Sched{W, C, ph, [4]int64{a, b, c, d}})
							}
						}
					}
				}
			}
		}
	}
	c02Space = out
	return out
}

const c02QuickA, c02ThorA, c02QuickB = 40, 600, 600

// part (c): free schedules over odd files (paid-once files running past their expiry height, same-block re-posts)
const c02QuickC, c02ThorC = 120, 3000

func init() {
	Register(&Prop{
		ID:    "C02",
		Title: "Honest provers can always prove and are never dropped or burned",
		Cases: func(t string) int {
			if t == "thorough" {
				return c02ThorA + len(c02Enumerate()) + c02ThorC
			}
			return c02QuickA + c02QuickB + c02QuickC
		},
		Run: runC02,
		Rule: "part (a): case = one file whose size is drawn from the boundary set {1,c-1,c,c+1,2c-1,2c,2c+1,kc,kc+-1} for chunk size c in {1,2,7,16,1024,16384}; the repository's client-side BuildTree and an independent tree builder must give the same root and proofs; on chain the honest holder proves 10-14 times, each in a fresh block after 0-3 unrelated transactions (so the height+block-gas challenge seed varies); oracle: every challenge read through the Proof query designates an existing chunk and the honest proof for it returns Success=true. " +
			"part (b): case = one schedule (proof window W in 2..7, reward interval C in 2..9, file start phase mod C, offset of the single honest proof inside each of 4 consecutive windows; all offsets for W<=4, else {first, middle, last, block before / at the first reward height}); a second honest prover joins in window 2; oracle after every reward BeginBlock: both provers still listed, their providers' burn counters unchanged, every proof accepted. quick = PRNG sample of the schedule space, thorough = the whole space (exhaustive for that bound). " +
			"part (c): case = W in 2..9, C in 2..9, file kind in {plan-paid, paid-once posted by transaction, paid-once seeded in genesis with expiry height 4..4+3W (the run continues for 7 windows, i.e. past the expiry), plan-paid posted, proven by prover 1 and posted again in the same block}; prover 1 joins in window 0, prover 2 in window 0..2, and both prove once per window at PRNG offsets through window 6; same oracle as (b). " +
			"non-trivial signature: (a) (chunk size, size class, saw non-zero challenge); (b) the schedule tuple; (c) (kind, W, C, join windows, run passed the expiry height)",
		Assumptions: []string{
			"an honest holder submits within the block it chooses; transaction inclusion delays are outside the property",
			"part (b) is exhaustive only for the stated bound (4 windows, W<=7, C<=9, one proof per window, restricted offsets for W>=5)",
			"part (c): a paid-once file close to its expiry height is seeded through genesis (reaching one by transactions takes >= 14400 blocks); the chain keeps checking such a file's provers after the expiry height, so the honest prover keeps proving and stays owed protection",
		},
		MinNonTriv: 200,
		Exhaustive: func(t string) bool { return t == "thorough" },
	})
}

func runC02(rc *RunCtx) {
	na := c02QuickA
	if rc.Tier == "thorough" {
		na = c02ThorA
	}
	if rc.Case < na {
		runC02a(rc)
		return
	}
	sp := c02Enumerate()
	var sc c02Sched
	if rc.Tier == "thorough" {
		if rc.Case-na >= len(sp) {
			runC02c(rc)
			return
		}
		sc = sp[rc.Case-na]
	} else {
		if rc.Case >= c02QuickA+c02QuickB {
			runC02c(rc)
			return
		}
		sc = sp[rc.Rng.Intn(len(sp))]
	}
	runC02b(rc, sc)
}

func runC02a(rc *RunCtx) {
	// chunk size is a governance parameter (any value >= 1): also one well above the default and above 10 KiB
	chunk := []int64{1, 2, 7, 16, 1024, 16384}[rc.Intn(6)]
	k := int64(3 + rc.Intn(38))
	if chunk > 1024 {
		k = int64(2 + rc.Intn(5))
	}
	cands := []int64{1, chunk - 1, chunk, chunk + 1, 2*chunk - 1, 2 * chunk, 2*chunk + 1, k * chunk, k*chunk - 1, k*chunk + 1}
	var sizes []int64
	for _, s := range cands {
		if s >= 1 {
			sizes = append(sizes, s)
		}
	}
	size := sizes[rc.Intn(len(sizes))]
	if rc.Chance(0.15) {
		size = int64(1 + rc.Intn(int(k*chunk)))
	}
	if chunk == 1 && size > 64 {
		size = int64(1 + rc.Intn(64))
	}
	data := randBytes(rc.Rng, size)
	if rc.Chance(0.2) { // repetitive content: equal chunks at different indices
		for i := range data {
			data[i] = byte(i % 3)
		}
	}
	f := gen.NewFile(data, chunk)
	sizeClass := "other"
	switch {
	case size%chunk == 0:
		sizeClass = "multiple"
	case size%chunk == 1:
		sizeClass = "multiple+1"
	case size%chunk == chunk-1:
		sizeClass = "multiple-1"
	}
	if size < chunk {
		sizeClass = "sub-chunk"
	}
	// client/chain encoding agreement: repo BuildTree vs independent builder
	root, exported, chunks, sz, err := storageutils.BuildTree(bytes.NewReader(data), chunk)
	rc.Eval(1)
	if err != nil {
		rc.Fail("C02/buildtree-error", "BuildTree failed for size %d chunk %d: %v", size, chunk, err)
		return
	}
	if !bytes.Equal(root, f.Root()) || int64(sz) != size || int64(len(chunks)) != f.NChunks() {
		rc.Fail("C02/client-tree-disagrees", "size %d chunk %d: BuildTree root %x (size %d, %d chunks) vs reference root %x (%d chunks)", size, chunk, root[:8], sz, len(chunks), f.Root()[:8], f.NChunks())
	}
	var tree merkletree.MerkleTree
	tree.Hash = sha3.New512()
	if err := json.Unmarshal(exported, &tree); err != nil {
		rc.Fail("C02/client-tree-unusable", "exported tree does not unmarshal: %v", err)
	} else {
		for n := 0; n < 6; n++ {
			idx := int64(rc.Intn(int(f.NChunks())))
			h := sha256.Sum256([]byte(fmt.Sprintf("%d%x", idx, f.Chunks[idx])))
			p, err := tree.GenerateProof(h[:], 0)
			if err != nil {
				// equal leaves at different indices are impossible (index is hashed in), so this must work
				rc.Fail("C02/client-proof-error", "GenerateProof chunk %d: %v", idx, err)
				continue
			}
			bz, _ := json.Marshal(p)
			_, mine := f.Proof(idx)
			if !bytes.Equal(bz, mine) {
				rc.Fail("C02/client-proof-disagrees", "chunk %d: client proof %s vs reference %s", idx, clip(string(bz)), clip(string(mine)))
			}
			rc.Eval(1)
		}
	}

	W := int64(4 + rc.Intn(40))
	sp := storageParams(W, int64(3+rc.Intn(5)), chunk)
	c, err := chain.New(chain.Config{Seed: rc.Seed, NAcc: 4, Storage: sp})
	if err != nil {
		rc.Abort("init: " + err.Error())
		return
	}
	defer c.Close()
	s := &SW{rc: rc, c: c}
	nb := func() bool {
		if _, err := c.NextBlock(time.Duration(1+rc.Intn(100)) * time.Second); err != nil {
			rc.Abort("block: " + err.Error())
			return false
		}
		return true
	}
	if !nb() {
		return
	}
	if r := s.BuyPlan(0, 0, 5_000_000_000, 60, ""); !r.OK() {
		rc.Abort("buy: " + r.Log)
		return
	}
	wf, r := s.PostFile(0, f, 2, 0, -1)
	if !r.OK() {
		rc.Abort("post: " + r.Log)
		return
	}
	rounds := 10 + rc.Intn(5)
	sawNonZero := false
	var chal []int64
	for i := 0; i < rounds; i++ {
		if rc.Chance(0.7) {
			if !nb() {
				return
			}
		}
		// unrelated transactions move the block gas meter, which seeds the next challenge
		for j := rc.Intn(4); j > 0; j-- {
			from := 2 + rc.Intn(2)
			amt := sdk.NewCoins(sdk.NewInt64Coin("ujkl", int64(1+rc.Intn(1000))))
			if rc.Chance(0.5) {
				c.DeliverAs(from, banktypes.NewMsgSend(c.Accs[from].Addr, c.Accs[0].Addr, amt))
			} else {
				c.DeliverAs(from, banktypes.NewMsgSend(c.Accs[from].Addr, c.Accs[1].Addr, amt), banktypes.NewMsgSend(c.Accs[from].Addr, c.Accs[0].Addr, amt))
			}
		}
		prover := 1
		if i > 3 && rc.Chance(0.3) {
			prover = 2
		}
		idx, _ := s.Challenge(c.Accs[prover].Bech, wf)
		rc.Eval(1)
		if idx < 0 || idx >= f.NChunks() {
			rc.Fail("C02/challenge-out-of-range", "file size %d chunk size %d (%d chunks): prover challenged with chunk %d at h=%d", size, chunk, f.NChunks(), idx, c.Height)
			return
		}
		pr := s.ProveHonest(prover, wf)
		if !pr.Success {
			rc.Fail("C02/honest-proof-rejected", "file size %d chunk size %d (%d chunks), challenge %d at h=%d: honest proof rejected: code=%d %s", size, chunk, f.NChunks(), idx, c.Height, pr.Tx.Code, pr.ErrMsg)
			return
		}
		nidx, ok := s.Challenge(c.Accs[prover].Bech, wf)
		if !ok {
			rc.Fail("C02/proof-record-missing", "accepted proof but no proof record for the prover")
			return
		}
		if nidx < 0 || nidx >= f.NChunks() {
			rc.Fail("C02/challenge-out-of-range", "file size %d chunk size %d (%d chunks): next challenge is chunk %d at h=%d", size, chunk, f.NChunks(), nidx, c.Height)
			return
		}
		if nidx != 0 {
			sawNonZero = true
		}
		chal = append(chal, nidx)
	}
	rc.NonTrivial(fmt.Sprintf("a/chunk%d/%s/nonzero=%v", chunk, sizeClass, sawNonZero))
	rc.Sample(map[string]interface{}{"part": "a", "size": size, "chunk": chunk, "chunks": f.NChunks(), "challenges": chal})
}

func runC02b(rc *RunCtx, sc c02Sched) {
	W, C := sc.W, sc.C
	sp := storageParams(W, C, 1024)
	sp.CollateralPrice = 1000
	c, err := chain.New(chain.Config{Seed: rc.Seed, NAcc: 3, Storage: sp})
	if err != nil {
		rc.Abort("init: " + err.Error())
		return
	}
	defer c.Close()
	s := &SW{rc: rc, c: c}
	rc.Logf("schedule W=%d C=%d phase=%d offsets=%v", W, C, sc.Phase, sc.Offs)
	if _, err := c.NextBlock(6 * time.Second); err != nil {
		rc.Abort(err.Error())
		return
	}
	if r := s.BuyPlan(0, 0, 5_000_000_000, 60, ""); !r.OK() {
		rc.Abort("buy: " + r.Log)
		return
	}
	for p := 1; p <= 2; p++ {
		if r := s.InitProvider(p, fmt.Sprintf("https://a.p%d.example", p)); !r.OK() {
			rc.Abort("provider: " + r.Log)
			return
		}
	}
	// reach the start phase
	for c.Height%C != sc.Phase {
		if _, err := c.NextBlock(6 * time.Second); err != nil {
			rc.Abort(err.Error())
			return
		}
	}
	f := gen.NewFile(randBytes(rc.Rng, int64(1+rc.Intn(5000))), 1024)
	if rc.Chance(0.3) {
		s.ReqProofInterval = []int64{1, W - 1, W + 1, 3 * W, 1 << 40}[rc.Intn(5)] // the file's proof window stays the network's
	}
	wf, r := s.PostFile(0, f, 2, 0, -1)
	if !r.OK() {
		rc.Abort("post: " + r.Log)
		return
	}
	S := wf.Start
	// second prover: joins in window 2 at a PRNG offset, then proves once per window at PRNG offsets
	offs2 := map[int64]int64{}
	off2 := func(win int64) int64 {
		if _, ok := offs2[win]; !ok {
			offs2[win] = int64(rc.Intn(int(W)))
		}
		return offs2[win]
	}
	joined := map[int]bool{}
	end := S + 4*W + C + 1
	for {
		rel := c.Height - S
		win := rel / W
		if win < 4 && rel%W == sc.Offs[win] {
			pr := s.ProveHonest(1, wf)
			rc.Eval(1)
			if !pr.Success {
				rc.Fail("C02/honest-proof-rejected", "schedule %+v: proof of prover 1 at h=%d (window %d) rejected: %s", sc, c.Height, win, pr.ErrMsg)
				return
			}
			joined[1] = true
		}
		if win >= 2 && rel%W == off2(win) {
			pr := s.ProveHonest(2, wf)
			rc.Eval(1)
			if !pr.Success {
				rc.Fail("C02/honest-proof-rejected", "schedule %+v: proof of prover 2 at h=%d (window %d) rejected: %s", sc, c.Height, win, pr.ErrMsg)
				return
			}
			joined[2] = true
		}
		if c.Height >= end {
			break
		}
		// prover 1 only commits to windows 0..3: stop observing it once window 4 can be judged
		ro, err := s.StepBlock(6 * time.Second)
		if err != nil {
			if pe, ok := err.(*chain.PanicError); ok {
				rc.Abort("BeginBlock panic: " + pe.Value)
			} else {
				rc.Abort(err.Error())
			}
			return
		}
		if !ro.IsReward {
			continue
		}
		rc.Eval(1)
		h := ro.Height
		pf := ro.Post.File(wf.Key())
		for p := 1; p <= 2; p++ {
			if !joined[p] {
				continue
			}
			// prover p has proven in every window up to and including the previous full window?
			// prover 1 proves in windows 0..3 only, so it is owed protection while h < S+5W (window 4 is the first it skips;
			// skipping window 4 can only be punished once window 4 is the "previous full window", i.e. at h >= S+5W)
			if p == 1 && h >= S+5*W {
				continue
			}
			addr := c.Accs[p].Bech
			listed := false
			if pf != nil {
				for _, pk := range pf.Proofs {
					if proverOfKey(pk) == addr {
						listed = true
					}
				}
			}
			if !listed {
				rc.Fail("C02/honest-prover-removed", "schedule %+v start=%d: prover %d, which proved once in every window so far, is no longer listed after the reward block at h=%d (window %d)", sc, S, p, h, (h-S)/W)
			}
			if b0, b1 := burned(ro.Pre.Providers[addr]), burned(ro.Post.Providers[addr]); b1 != b0 {
				rc.Fail("C02/honest-prover-burned", "schedule %+v start=%d: prover %d burn counter %d -> %d at reward block h=%d", sc, S, p, b0, b1, h)
			}
		}
	}
	rc.NonTrivial(fmt.Sprintf("b/W%d/C%d/ph%d/%v", W, C, sc.Phase, sc.Offs))
	rc.Sample(map[string]interface{}{"part": "b", "W": W, "C": C, "phase": sc.Phase, "offsets": sc.Offs, "start": S})
	_ = storagetypes.ModuleName
}

// runC02c: free schedules over odd files.
func runC02c(rc *RunCtx) {
	W := int64(2 + rc.Intn(8))
	C := int64(2 + rc.Intn(8))
	kind := []string{"plan", "payonce-tx", "payonce-genesis", "payonce-genesis", "repost"}[rc.Intn(5)]
	sp := storageParams(W, C, 1024)
	sp.CollateralPrice = 1000
	f := gen.NewFile(randBytes(rc.Rng, int64(1+rc.Intn(5000))), 1024)
	chain.SetBech32()
	owner := sdk.AccAddress(chain.DeriveKey(rc.Seed, 0).PubKey().Address()).String()
	cfg := chain.Config{Seed: rc.Seed, NAcc: 5, Storage: sp}
	var S, E int64
	if kind == "payonce-genesis" {
		S = 1 // the first block: the run starts at the file's first height
		E = 4 + int64(rc.Intn(int(3*W)+1))
		cfg.Mutate = func(cdc codec.JSONCodec, gs app.GenesisState) {
			var sg storagetypes.GenesisState
			cdc.MustUnmarshalJSON(gs[storagetypes.ModuleName], &sg)
			sg.FileList = append(sg.FileList, storagetypes.UnifiedFile{Merkle: f.Root(), Owner: owner, Start: S, Expires: E, FileSize: f.Size(),
				ProofInterval: W, ProofType: 0, Proofs: []string{}, MaxProofs: 5, Note: "{}"})
			gs[storagetypes.ModuleName] = cdc.MustMarshalJSON(&sg)
		}
	}
	c, err := chain.New(cfg)
	if err != nil {
		rc.Abort("init: " + err.Error())
		return
	}
	defer c.Close()
	if c.Accs[0].Bech != owner {
		rc.Abort("account derivation mismatch")
		return
	}
	s := &SW{rc: rc, c: c}
	if _, err := c.NextBlock(6 * time.Second); err != nil {
		rc.Abort(err.Error())
		return
	}
	if r := s.BuyPlan(0, 0, 5_000_000_000, 60, ""); !r.OK() {
		rc.Abort("buy: " + r.Log)
		return
	}
	// company: the file's owner may be a provider that proves its own file (in step with prover 1); a deserter joins once
	// and never proves again (the reward blocks have to drop and burn it, and nobody else); a second file, posted out of
	// phase with the first and held by one further provider that proves in every block, shares the reward blocks
	ownerProves, deserter, second := rc.Chance(0.4), rc.Chance(0.5), rc.Chance(0.6)
	for p := 0; p <= 4; p++ {
		if p == 0 && !ownerProves {
			continue
		}
		if r := s.InitProvider(p, fmt.Sprintf("https://a.p%d.example", p)); !r.OK() {
			rc.Abort("provider: " + r.Log)
			return
		}
	}
	honest := []int{1, 2}
	if ownerProves {
		honest = append(honest, 0)
	}
	// prover 1 joins in the file's first window (a file nobody stores after its first window is dropped by design)
	join := map[int]int64{0: 0, 1: 0, 2: int64(rc.Intn(3))}
	gDelay := int64(1 + rc.Intn(int(W)+2))
	var wg *WFile
	deserted := false
	var wf *WFile
	switch kind {
	case "payonce-genesis":
		wf = &WFile{F: f, Owner: 0, OwnerAddr: owner, Start: S, MaxProofs: 5, Expires: E, Size: f.Size(), Window: W}
		s.Files = append(s.Files, wf)
	default:
		for i := rc.Intn(int(C)); i > 0; i-- {
			if _, err := c.NextBlock(6 * time.Second); err != nil {
				rc.Abort(err.Error())
				return
			}
		}
		exp := int64(0)
		if kind == "payonce-tx" {
			exp = c.Height + 14_400 + int64(rc.Intn(100_000))
		}
		var r chain.TxResult
		if wf, r = s.PostFile(0, f, 5, exp, -1); !r.OK() {
			rc.Abort("post: " + r.Log)
			return
		}
		if kind == "repost" {
			// post, first proof, and the same file posted again by its owner, all in one block
			join[1] = 0
			if pr := s.ProveHonest(1, wf); !pr.Success {
				rc.Fail("C02/honest-proof-rejected", "kind=%s: first proof right after the post at h=%d rejected: %s", kind, c.Height, pr.ErrMsg)
				return
			}
			s.Files = nil
			wf2, r2 := s.PostFile(0, f, 5, 0, -1)
			if !r2.OK() || wf2.Start != wf.Start {
				rc.Abort(fmt.Sprintf("re-post: %s", r2.Log))
				return
			}
			wf = wf2
		}
		S = wf.Start
	}
	rc.Logf("kind=%s W=%d C=%d start=%d expires=%d joins=%v", kind, W, C, S, wf.Expires, join)
	const L = 6
	offs := map[[2]int64]int64{}
	off := func(p int, win int64) int64 {
		if p == 0 {
			p = 1 // the owner proves in the same blocks as prover 1
		}
		k := [2]int64{int64(p), win}
		if _, ok := offs[k]; !ok {
			offs[k] = int64(rc.Intn(int(W)))
		}
		return offs[k]
	}
	joined := map[int]bool{}
	end := S + (L+1)*W + C + 1
	passedExpiry := false
	for {
		rel := c.Height - S
		win := rel / W
		if rel >= 0 {
			if deserter && !deserted {
				deserted = true
				if pr := s.ProveHonest(3, wf); !pr.Success {
					rc.Logf("h=%d deserter could not join: %s", c.Height, pr.ErrMsg)
				}
			}
			if second && wg == nil && rel >= gDelay {
				g := gen.NewFile(randBytes(rc.Rng, int64(1+rc.Intn(5000))), 1024)
				var rg chain.TxResult
				if wg, rg = s.PostFile(0, g, 1, 0, -1); !rg.OK() {
					rc.Abort("post of the second file: " + rg.Log)
					return
				}
			}
			if wg != nil {
				if pr := s.ProveHonest(4, wg); !pr.Success {
					rc.Fail("C02/honest-proof-rejected", "kind=%s: proof of the second file's prover at h=%d rejected: %s", kind, c.Height, pr.ErrMsg)
					return
				}
			}
			for _, p := range honest {
				if win >= join[p] && win <= L && rel%W == off(p, win) {
					pr := s.ProveHonest(p, wf)
					rc.Eval(1)
					if !pr.Success {
						rc.Fail("C02/honest-proof-rejected", "kind=%s W=%d C=%d start=%d expires=%d: proof of prover %d at h=%d (window %d) rejected: %s", kind, W, C, S, wf.Expires, p, c.Height, win, pr.ErrMsg)
						return
					}
					joined[p] = true
				}
			}
		}
		if c.Height >= end {
			break
		}
		ro, err := s.StepBlock(6 * time.Second)
		if err != nil {
			if pe, ok := err.(*chain.PanicError); ok {
				rc.Abort("BeginBlock panic: " + pe.Value)
			} else {
				rc.Abort(err.Error())
			}
			return
		}
		if wf.Expires > 0 && ro.Height > wf.Expires {
			passedExpiry = true
		}
		if !ro.IsReward {
			continue
		}
		rc.Eval(1)
		h := ro.Height
		if h >= S+(L+2)*W {
			continue // window L+1 is skipped by design; from here on a removal is legitimate
		}
		if wg != nil && ro.Pre.File(wg.Key()) != nil {
			a4 := c.Accs[4].Bech
			if b0, b1 := burned(ro.Pre.Providers[a4]), burned(ro.Post.Providers[a4]); b1 != b0 {
				rc.Fail("C02/honest-prover-burned", "kind=%s W=%d C=%d: the second file's prover, which proves in every block, burn counter %d -> %d at reward block h=%d", kind, W, C, b0, b1, h)
			}
			if g := ro.Post.File(wg.Key()); g == nil || len(g.Proofs) != 1 || proverOfKey(g.Proofs[0]) != a4 {
				rc.Fail("C02/honest-prover-removed", "kind=%s W=%d C=%d: the second file's prover, which proves in every block, is no longer its only listed prover after the reward block at h=%d", kind, W, C, h)
			}
		}
		pf := ro.Post.File(wf.Key())
		for _, p := range honest {
			if !joined[p] {
				continue
			}
			addr := c.Accs[p].Bech
			listed := false
			if pf != nil {
				for _, pk := range pf.Proofs {
					if proverOfKey(pk) == addr {
						listed = true
					}
				}
			}
			if !listed {
				rc.Fail("C02/honest-prover-removed", "kind=%s W=%d C=%d start=%d expires=%d: prover %d (joined in window %d, proved once in every window since) is no longer listed after the reward block at h=%d (window %d)", kind, W, C, S, wf.Expires, p, join[p], h, (h-S)/W)
			}
			if b0, b1 := burned(ro.Pre.Providers[addr]), burned(ro.Post.Providers[addr]); b1 != b0 {
				rc.Fail("C02/honest-prover-burned", "kind=%s W=%d C=%d start=%d expires=%d: prover %d burn counter %d -> %d at reward block h=%d", kind, W, C, S, wf.Expires, p, b0, b1, h)
			}
		}
	}
	rc.NonTrivial(fmt.Sprintf("c/%s/W%d/C%d/j%d%d/past-expiry=%v/owner-proves=%v/deserter=%v/second-file=%v", kind, W, C, join[1], join[2], passedExpiry, ownerProves, deserter, wg != nil))
	rc.Sample(map[string]interface{}{"part": "c", "kind": kind, "W": W, "C": C, "start": S, "expires": wf.Expires, "joins": fmt.Sprint(join)})
}
