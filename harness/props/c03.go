package props

import (
	"fmt"
	"time"

	"jkverif/chain"
	"jkverif/gen"
)

// C03 – reward blocks pay each proven prover its proportional share exactly once.

func init() {
	Register(&Prop{
		ID:    "C03",
		Title: "Reward blocks pay each proven prover its proportional share exactly once",
		Cases: func(t string) int { return tierN(t, 160, 24000) },
		Run:   runC03,
		Rule: "case = one generated history: 1-3 files (sizes 1..1e9 bytes, replication 1-5), 2-5 provers joining in PRNG order, each (prover,file) stops proving at a PRNG-chosen window (or never), proof window 2-6, reward interval 2-6, live gauges; " +
			"every reward BeginBlock is one oracle evaluation (hooked sizeTracker == bytes of obligation-met listings; prover lists / proof records / burn counters after == predicted; payouts from the transfer event log within one unit of the size-weighted share, only to counted provers, sum <= released); " +
			"non-trivial signature = per-file met/missed pattern in list order of a reward block with released>0 and >=1 counted prover, classed by whether a missed prover sits at a non-last position",
		Assumptions: []string{
			"obligation met <=> an accepted proof (or join) in the previous full proof window or later, or the file is in its first window (statement of C02/C03)",
			"share denominator may be either the bytes counted or the bytes listed before removals (the statement fixes proportionality and sum<=released only)",
			"amounts < 1e15 so 18-decimal intermediate rounding stays far inside the one-unit tolerance",
		},
		MinNonTriv: 20,
	})
}

type c03Behaviour struct {
	joinAt int   // block offset (after file start) at which the prover joins
	stopAt int64 // first window index in which it no longer proves (1<<60 = never)
	off    map[int64]int64
}

func runC03(rc *RunCtx) {
	W := int64(2 + rc.Intn(5))
	C := int64(2 + rc.Intn(5))
	bigChunk := rc.Chance(0.5)
	chunk := int64(1024)
	if bigChunk {
		chunk = 1 << 50 // every declared size below is a single chunk: provable for ever, counted with its declared size
	}
	sp := storageParams(W, C, chunk)
	sp.CollateralPrice = 1000
	nProv := 2 + rc.Intn(4)
	nFiles := 1 + rc.Intn(3)
	c, err := chain.New(chain.Config{Seed: rc.Seed, NAcc: nProv + 1, Storage: sp})
	if err != nil {
		rc.Abort("init: " + err.Error())
		return
	}
	defer c.Close()
	s := &SW{rc: rc, c: c}
	netWindows = map[string]int64{}
	rc.Logf("W=%d C=%d chunk=%d provers=%d files=%d", W, C, chunk, nProv, nFiles)

	dts := []time.Duration{6 * time.Second, time.Hour, 24 * time.Hour, 90 * time.Minute}
	step := func() (*RewardObs, bool) {
		ro, err := s.StepBlock(dts[rc.Intn(len(dts))])
		if err != nil {
			if pe, ok := err.(*chain.PanicError); ok {
				rc.Abort("BeginBlock panic (C05 territory): " + pe.Value)
			} else {
				rc.Abort(err.Error())
			}
			return nil, false
		}
		if ro.IsReward {
			if nt := checkRewardC03(rc, ro); nt != "" {
				rc.NonTrivial(nt)
				rc.Count("reward_blocks_nontrivial", 1)
			}
			rc.Count("reward_blocks", 1)
		} else {
			if len(ro.Paid) > 0 {
				rc.Fail("C03/paid-in-non-reward-block", "h=%d: storage module paid %v in a non-reward block", ro.Height, ro.Paid)
			}
		}
		return ro, true
	}
	if _, ok := step(); !ok {
		return
	}
	// plan: large so that gauges release visible amounts
	if r := s.BuyPlan(0, 0, 40_000_000_000_000, int64(60+rc.Intn(700)), ""); !r.OK() {
		rc.Abort("buy plan: " + r.Log)
		return
	}
	if rc.Chance(0.5) {
		s.BuyPlan(1, 1, 3_000_000_000_000, 90, "")
	}
	for p := 1; p <= nProv; p++ {
		if rc.Chance(0.7) {
			if r := s.InitProvider(p, fmt.Sprintf("https://node%d.prov%d.example", p, p)); !r.OK() {
				rc.Abort("init provider: " + r.Log)
				return
			}
		}
	}
	if _, ok := step(); !ok {
		return
	}
	// files
	type fileState struct {
		w   *WFile
		beh map[int]*c03Behaviour
	}
	var fs []*fileState
	// declared sizes up to terabytes: released ujkl x counted bytes passes 2^63
	sizes := []int64{1, 2, 1000, 1024, 4096, 40000, 1_000_000, 999_999_937, 1_000_000_000, 300_000_000_000, 2_000_000_000_000, 300_000_000_000}
	for i := 0; i < nFiles; i++ {
		var f *gen.File
		declared := int64(-1)
		if bigChunk {
			f = gen.NewFile(randBytes(rc.Rng, int64(1+rc.Intn(64))), chunk)
			declared = rc.Pick(sizes)
		} else {
			f = gen.NewFile(randBytes(rc.Rng, int64(1+rc.Intn(20000))), chunk)
		}
		maxp := int64(1 + rc.Intn(nProv))
		if rc.Chance(0.3) {
			s.ReqProofInterval = []int64{1, W + 1, 2 * W, 1000, 1 << 40, -1}[rc.Intn(6)]
		}
		w, r := s.PostFile(0, f, maxp, 0, declared)
		if r.OK() {
			netWindows[w.Key()] = w.Window
		}
		if !r.OK() {
			rc.Abort("post file: " + r.Log)
			return
		}
		st := &fileState{w: w, beh: map[int]*c03Behaviour{}}
		perm := rc.Rng.Perm(nProv)
		for j := 0; j < int(maxp); j++ {
			p := perm[j] + 1
			b := &c03Behaviour{joinAt: rc.Intn(int(W)), stopAt: 1 << 60, off: map[int64]int64{}}
			if rc.Chance(0.55) {
				b.stopAt = int64(1 + rc.Intn(4))
			}
			st.beh[p] = b
		}
		fs = append(fs, st)
		if rc.Chance(0.4) {
			if _, ok := step(); !ok {
				return
			}
		}
	}
	horizon := c.Height + 5*W + C + 2
	for c.Height < horizon {
		// proofs of this block
		for _, st := range fs {
			for p := 1; p <= nProv; p++ {
				b := st.beh[p]
				if b == nil {
					continue
				}
				rel := c.Height - st.w.Start
				if rel < int64(b.joinAt) {
					continue
				}
				win := rel / W
				if win >= b.stopAt {
					continue
				}
				if _, ok := b.off[win]; !ok {
					lo := int64(0)
					if win == int64(b.joinAt)/W {
						lo = int64(b.joinAt) % W
					}
					b.off[win] = lo + int64(rc.Intn(int(W-lo)))
				}
				if rel%W != b.off[win] {
					continue
				}
				pr := s.ProveHonest(p, st.w)
				rc.Count("proofs_submitted", 1)
				if pr.Success {
					rc.Count("proofs_accepted", 1)
				}
			}
		}
		if _, ok := step(); !ok {
			return
		}
	}
	rc.Sample(map[string]interface{}{"W": W, "C": C, "files": nFiles, "provers": nProv, "trace_tail": tail(rc.Trace(), 6)})
}

func tail(xs []string, n int) []string {
	if len(xs) > n {
		return xs[len(xs)-n:]
	}
	return xs
}
