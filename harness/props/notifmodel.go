package props

import (
	"strings"

	sdk "github.com/cosmos/cosmos-sdk/types"
)

// Reference model of the notifications inbox (DESIGN.md Appendix A.5),
// written from the statement of C18. It never looks at the notification
// store; it is advanced only by (message, result code) pairs.

type nfEntry struct {
	To, From string
	Time     int64
	Contents string
	Private  string
}

type nfModel struct {
	inbox map[string][]nfEntry // recipient (bech32) -> multiset, in delivery order
	names map[string]string    // the model's own view of rns: "label.tld" (lower case) -> owner bech32
	// Blocks. A target given as an address is blocked as such. For a target
	// given as a name the statement leaves open whether the name is resolved
	// when the block is made (reading A) or when a send is attempted
	// (reading B); both are kept.
	blockDirect map[string]map[string]bool            // blocker -> addresses
	blockNameAt map[string]map[string]map[string]bool // blocker -> name -> addresses it resolved to whenever it was blocked
}

func newNfModel() *nfModel {
	return &nfModel{inbox: map[string][]nfEntry{}, names: map[string]string{},
		blockDirect: map[string]map[string]bool{}, blockNameAt: map[string]map[string]map[string]bool{}}
}

func nfIsAddress(s string) bool {
	_, err := sdk.AccAddressFromBech32(s)
	return err == nil
}

// resolve: a jkl address resolves to itself (canonical form), a name to its
// stored owner (expiry is not consulted), anything else does not resolve.
func (m *nfModel) resolve(s string) (string, bool) {
	if a, err := sdk.AccAddressFromBech32(s); err == nil {
		return a.String(), true
	}
	if o, ok := m.names[strings.ToLower(s)]; ok {
		return o, true
	}
	return "", false
}

// blocked reports whether recipient r blocks sender x under reading A and under reading B.
func (m *nfModel) blocked(r, x string) (a, b bool) {
	if m.blockDirect[r][x] {
		return true, true
	}
	for n, at := range m.blockNameAt[r] {
		if at[x] {
			a = true
		}
		if o, ok := m.names[n]; ok && o == x {
			b = true
		}
	}
	return
}

// blockRecords: every address for which r ever made a block.
func (m *nfModel) blockRecords(r string) map[string]bool {
	out := map[string]bool{}
	for a := range m.blockDirect[r] {
		out[a] = true
	}
	for _, at := range m.blockNameAt[r] {
		for a := range at {
			out[a] = true
		}
	}
	return out
}

func (m *nfModel) addBlock(blocker, target string) bool {
	res, ok := m.resolve(target)
	if !ok {
		return false
	}
	if nfIsAddress(target) {
		if m.blockDirect[blocker] == nil {
			m.blockDirect[blocker] = map[string]bool{}
		}
		m.blockDirect[blocker][res] = true
		return true
	}
	if m.blockNameAt[blocker] == nil {
		m.blockNameAt[blocker] = map[string]map[string]bool{}
	}
	key := strings.ToLower(target)
	if m.blockNameAt[blocker][key] == nil {
		m.blockNameAt[blocker][key] = map[string]bool{}
	}
	m.blockNameAt[blocker][key][res] = true
	return true
}

func (m *nfModel) deliver(r, from string, t int64, contents string, private []byte) nfEntry {
	e := nfEntry{To: r, From: from, Time: t, Contents: contents, Private: string(private)}
	m.inbox[r] = append(m.inbox[r], e)
	return e
}

// remove deletes every entry (from, time) of x's own inbox; other inboxes are never touched.
func (m *nfModel) remove(x, from string, t int64) int {
	var keep []nfEntry
	n := 0
	for _, e := range m.inbox[x] {
		if e.From == from && e.Time == t {
			n++
			continue
		}
		keep = append(keep, e)
	}
	m.inbox[x] = keep
	return n
}
