package props

import (
	"fmt"
	"reflect"
	"sort"
	"strings"

	sdk "github.com/cosmos/cosmos-sdk/types"

	"jkverif/chain"

	rnstypes "github.com/jackalLabs/canine-chain/v4/x/rns/types"
)

// C08 – a live name changes owner only with its current owner's consent, who is paid.
//
// Monitor: the rns world (rnsworld.go) judges every delivered message; this
// file holds the history generator shared with C09.

func init() {
	Register(&Prop{
		ID:    "C08",
		Title: "A live name changes owner only with its current owner's consent, who is paid",
		Cases: func(t string) int { return tierN(t, 300, 30000) },
		Run:   runRnsHistory,
		Rule: "case = one generated history of 20..32 rns messages (all 14 message types) by 4 accounts over 3-6 names (two seeded in genesis with expiry heights 4..8 and 11..18 so that expiry and re-registration happen inside the run, optionally a long-lived seeded name, fresh names, a locked free Init name), PRNG interleaving mixed with targeted stale sequences " +
			"(list->transfer->buy, list->bid->accept->buy, list->expire->re-register->buy, previous owner replays update/add-record/del-record/delist/transfer/list/accept, register exactly at the expiry height); " +
			"every delivered message is one oracle evaluation (Name / ListOwnedNames / ForSale / AllBids / all bank balances before and after; owner, data and records of every live name may change only as the statement permits for that message and signer; on a paid move the previous owner's balance rises by the full price); " +
			"non-trivial signature = (message type, signer role in {owner, prev-owner, stale-lister, stranger}, name status in {live, live-at-expiry-height, expired}, listing state in {unlisted, listed-by-owner, listing-stale}, accepted/rejected) for messages naming a registered name",
		Assumptions: []string{
			"live(n,h) <=> registered and h <= Expires (the test Transfer/Update/List/Buy/AcceptBid apply)",
			"the statement does not say whether locks, missing listings, etc. must reject a message signed by the owner: only effects are judged, never the accept/reject decision of an owner-signed message",
			"on a bid acceptance 'the full price' may be read as the open bid as recorded or as everything the bidder escrowed; either is accepted (C09 owns the difference)",
			"changes to expired or unregistered names by non-registration messages, and who may create or remove a listing, are outside the statement (counted as anomalies, not findings)",
			"only canonical names label.tld are generated (labels possibly mixed-case; the chain lower-cases and so does the model)",
		},
		MinNonTriv: 150,
	})
}

type rnsGen struct {
	rc    *RunCtx
	w     *RW
	c     *chain.Chain
	pool  []string // canonical names the generator plays with
	alias map[string]string
	short map[string]int64
	queue []func() bool // pending targeted steps; return false when the history must stop
}

func (g *rnsGen) acc(i int) string { return g.c.Accs[i].Bech }

func (g *rnsGen) idx(addr string) int {
	for i, a := range g.c.Accs {
		if a.Bech == addr {
			return i
		}
	}
	return -1
}

func (g *rnsGen) ownerIdx(n string) int {
	if p := g.w.st.Names[n]; p != nil {
		return g.idx(p.Owner)
	}
	return -1
}

func (g *rnsGen) otherThan(xs ...int) int {
	for tries := 0; tries < 20; tries++ {
		i := g.rc.Intn(len(g.c.Accs))
		ok := true
		for _, x := range xs {
			if x == i {
				ok = false
			}
		}
		if ok {
			return i
		}
	}
	return 0
}

func (g *rnsGen) spell(n string) string {
	if g.rc.Chance(0.15) {
		return rnsMixCase(g.rc, n)
	}
	return n
}

// aliasFor: per case, some names are always written with another separator than "." in front of the TLD. The
// handlers drop that character unseen, so "test-jkl" is test.jkl. One spelling per name per case (applied to every
// message in do), so that bids and listings - which the chain keys by the spelling used - stay addressable.
func (g *rnsGen) aliasFor(canon string) string {
	if g.alias == nil {
		g.alias = map[string]string{}
	}
	a, ok := g.alias[canon]
	if !ok {
		a = canon
		if i := strings.LastIndex(canon, "."); i > 0 && !strings.Contains(canon[:i], ".") && g.rc.Chance(0.15) {
			a = canon[:i] + g.rc.PickS([]string{"-", "_", "x"}) + canon[i+1:]
		}
		g.alias[canon] = a
	}
	return a
}

func (g *rnsGen) do(i int, m sdk.Msg) bool {
	if i < 0 {
		return true // no such account (e.g. the name is owned by nobody we control): skip the step
	}
	if _, isDel := m.(*rnstypes.MsgDelRecord); !isDel {
		if f := reflect.ValueOf(m).Elem().FieldByName("Name"); f.IsValid() && f.Kind() == reflect.String {
			canon := rnsCanon(strings.ReplaceAll(f.String(), " ", ""))
			if a := g.aliasFor(canon); a != canon && !strings.Contains(f.String(), " ") {
				if g.rc.Chance(0.15) {
					a = rnsMixCase(g.rc, a)
				}
				f.SetString(a)
			}
		}
	}
	_, ok := g.w.Do(i, m)
	return ok
}

func (g *rnsGen) price() sdk.Coin {
	switch g.rc.Intn(10) {
	case 0:
		return sdk.NewInt64Coin(rnsDenomA, 0)
	case 1:
		return sdk.NewInt64Coin(rnsDenomA, 1)
	case 2, 3:
		return sdk.NewInt64Coin(rnsDenomB, int64(1+g.rc.Intn(5000)))
	case 4:
		return sdk.NewCoin(rnsDenomA, sdk.NewInt(1_000_000_000).MulRaw(1_000_000_000)) // unaffordable
	case 5:
		return sdk.Coin{Denom: rnsDenomA, Amount: sdk.NewInt(-5)}
	}
	return sdk.NewInt64Coin(rnsDenomA, int64(1000+g.rc.Intn(9_000_000)))
}

func (g *rnsGen) bidCoin() sdk.Coin {
	amts := []int64{1, 300, 1000, 1001, 5_000_000, 1_000_000_000}
	switch g.rc.Intn(12) {
	case 0:
		return sdk.NewInt64Coin(rnsDenomA, 0)
	case 1:
		return sdk.Coin{Denom: rnsDenomB, Amount: sdk.NewInt(-7)}
	case 2:
		return sdk.NewCoin(rnsDenomB, sdk.NewInt(1_000_000_000).MulRaw(1_000_000_000)) // more than the bidder has
	case 3, 4, 5:
		return sdk.NewInt64Coin(rnsDenomB, g.rc.Pick(amts))
	case 6:
		// a few whole tokens of an 18-decimal asset: more base units than an int64 holds
		big19, _ := sdk.NewIntFromString("10000000000000000000")
		return sdk.NewCoin(rnsDenomC, big19.MulRaw(int64(1+g.rc.Intn(9))))
	}
	return sdk.NewInt64Coin(rnsDenomA, g.rc.Pick(amts))
}

func (g *rnsGen) years() int64 {
	return g.rc.Pick([]int64{1, 1, 1, 2, 5, 0, -1})
}

func (g *rnsGen) pickName() string {
	// names known to the chain that are not in the pool yet (Init names) join it
	var extra []string
	for k := range g.w.st.Names {
		found := false
		for _, p := range g.pool {
			if p == k {
				found = true
			}
		}
		if !found {
			extra = append(extra, k)
		}
	}
	sort.Strings(extra)
	g.pool = append(g.pool, extra...)
	return g.pool[g.rc.Intn(len(g.pool))]
}

func (g *rnsGen) pickSigner(n string) int {
	o := g.ownerIdx(n)
	r := g.rc.Intn(100)
	switch {
	case r < 40 && o >= 0:
		return o
	case r < 60 && len(g.w.prev[n]) > 0:
		if i := g.idx(g.w.prev[n][g.rc.Intn(len(g.w.prev[n]))]); i >= 0 {
			return i
		}
	case r < 70:
		if s, ok := g.w.st.Sales[n]; ok {
			if i := g.idx(s.Creator); i >= 0 {
				return i
			}
		}
	}
	return g.rc.Intn(len(g.c.Accs))
}

func (g *rnsGen) bidderOn(n string) int {
	var ks []string
	for k, b := range g.w.st.Bids {
		if b.Name == n {
			ks = append(ks, k)
		}
	}
	if len(ks) == 0 || g.rc.Chance(0.15) {
		return g.rc.Intn(len(g.c.Accs))
	}
	sort.Strings(ks)
	if i := g.idx(g.w.st.Bids[ks[g.rc.Intn(len(ks))]].Bidder); i >= 0 {
		return i
	}
	return 0
}

func (g *rnsGen) recordOf(n string) string {
	if p := g.w.st.Names[n]; p != nil && len(p.Records) > 0 && g.rc.Chance(0.8) {
		return p.Records[g.rc.Intn(len(p.Records))].Name
	}
	return g.rc.PickS([]string{"app", "www", "pay"})
}

// randomStep delivers one PRNG-chosen message.
func (g *rnsGen) randomStep() bool {
	n := g.pickName()
	s := g.pickSigner(n)
	me := g.acc(s)
	nm := g.spell(n)
	r := g.rc.Intn(104)
	switch {
	case r < 8:
		return g.do(s, &rnstypes.MsgRegisterName{Creator: me, Name: nm, Years: g.years(), Data: "{}", SetPrimary: g.rc.Chance(0.3)})
	case r < 12:
		return g.do(s, &rnstypes.MsgRegister{Creator: me, Name: nm, Years: g.years(), Data: `{"k":1}`})
	case r < 22:
		return g.do(s, &rnstypes.MsgTransfer{Creator: me, Name: nm, Receiver: g.acc(g.otherThan(s))})
	case r < 34:
		return g.do(s, &rnstypes.MsgList{Creator: me, Name: nm, Price: g.price()})
	case r < 40:
		return g.do(s, &rnstypes.MsgDelist{Creator: me, Name: nm})
	case r < 52:
		b := s
		if _, listed := g.w.st.Sales[n]; listed && g.rc.Chance(0.7) {
			b = g.otherThan(g.ownerIdx(n))
		}
		return g.do(b, &rnstypes.MsgBuy{Creator: g.acc(b), Name: nm})
	case r < 66:
		b := g.rc.Intn(len(g.c.Accs))
		if g.rc.Chance(0.5) {
			b = g.bidderOn(n) // repeated bid by the same account
		}
		return g.do(b, &rnstypes.MsgBid{Creator: g.acc(b), Name: nm, Bid: g.bidCoin()})
	case r < 73:
		b := g.bidderOn(n)
		return g.do(b, &rnstypes.MsgCancelBid{Creator: g.acc(b), Name: nm})
	case r < 82:
		return g.do(s, &rnstypes.MsgAcceptBid{Creator: me, Name: nm, From: g.acc(g.bidderOn(n))})
	case r < 87:
		return g.do(s, &rnstypes.MsgUpdate{Creator: me, Name: nm, Data: fmt.Sprintf(`{"v":%d}`, g.rc.Intn(1000))})
	case r < 92:
		return g.do(s, &rnstypes.MsgAddRecord{Creator: me, Name: nm, Record: g.rc.PickS([]string{"app", "www", "pay", "App"}), Value: g.acc(g.rc.Intn(len(g.c.Accs))), Data: "{}"})
	case r < 96:
		return g.do(s, &rnstypes.MsgDelRecord{Creator: me, Name: g.recordOf(n) + "." + nm})
	case r < 100:
		i := g.rc.Intn(len(g.c.Accs))
		return g.do(i, &rnstypes.MsgInit{Creator: g.acc(i)})
	default:
		return g.do(s, &rnstypes.MsgMakePrimary{Creator: me, Name: nm})
	}
}

func (g *rnsGen) advanceTo(h int64) bool {
	if h-g.c.Height > 24 {
		return true // heights cannot be skipped; far-away expiries are out of reach
	}
	for g.c.Height < h {
		if !g.w.Block() {
			return false
		}
	}
	return true
}

// liveOwned picks a pool name that is live (and unlocked if possible), preferring long-lived ones.
func (g *rnsGen) liveName(minLeft int64) string {
	var c []string
	for _, n := range g.pool {
		if p := g.w.st.Names[n]; p != nil && p.Expires-g.c.Height >= minLeft && p.Locked <= g.c.Height {
			c = append(c, n)
		}
	}
	if len(c) == 0 {
		return ""
	}
	return c[g.rc.Intn(len(c))]
}

// ensureLive registers the name (by a PRNG-chosen account) when it is not live, so that a targeted sequence has something to work on.
func (g *rnsGen) ensureLive() (string, bool) {
	if n := g.liveName(2); n != "" {
		return n, true
	}
	n := g.pool[g.rc.Intn(len(g.pool))]
	i := g.rc.Intn(len(g.c.Accs))
	if !g.do(i, &rnstypes.MsgRegisterName{Creator: g.acc(i), Name: n, Years: 1, Data: "{}"}) {
		return "", false
	}
	return n, true
}

func (g *rnsGen) enqueue(fs ...func() bool) { g.queue = append(g.queue, fs...) }

// targeted sequences --------------------------------------------------------

func (g *rnsGen) seqListThenMoveThenBuy(via string) {
	var n string
	g.enqueue(func() bool {
		var ok bool
		n, ok = g.ensureLive()
		if !ok {
			return false
		}
		o := g.ownerIdx(n)
		if o < 0 {
			return true
		}
		p := sdk.NewInt64Coin(rnsDenomA, int64(1000+g.rc.Intn(9_000_000)))
		if g.rc.Chance(0.25) {
			p = sdk.NewInt64Coin(rnsDenomB, int64(1+g.rc.Intn(5000)))
		}
		return g.do(o, &rnstypes.MsgList{Creator: g.acc(o), Name: g.spell(n), Price: p})
	})
	switch via {
	case "transfer":
		g.enqueue(func() bool {
			o := g.ownerIdx(n)
			if o < 0 {
				return true
			}
			return g.do(o, &rnstypes.MsgTransfer{Creator: g.acc(o), Name: n, Receiver: g.acc(g.otherThan(o))})
		})
		if g.rc.Chance(0.2) { // ... and back again: the listing is by the current owner once more
			g.enqueue(func() bool {
				o := g.ownerIdx(n)
				if o < 0 || len(g.w.prev[n]) == 0 {
					return true
				}
				return g.do(o, &rnstypes.MsgTransfer{Creator: g.acc(o), Name: n, Receiver: g.w.prev[n][len(g.w.prev[n])-1]})
			})
		}
	case "accept":
		var b int
		g.enqueue(func() bool {
			b = g.otherThan(g.ownerIdx(n))
			return g.do(b, &rnstypes.MsgBid{Creator: g.acc(b), Name: n, Bid: sdk.NewInt64Coin(rnsDenomA, int64(100+g.rc.Intn(5000)))})
		}, func() bool {
			o := g.ownerIdx(n)
			if o < 0 {
				return true
			}
			return g.do(o, &rnstypes.MsgAcceptBid{Creator: g.acc(o), Name: n, From: g.acc(b)})
		})
	}
	g.enqueue(func() bool {
		o := g.ownerIdx(n)
		excl := []int{o}
		if s, ok := g.w.st.Sales[n]; ok && g.rc.Chance(0.7) {
			excl = append(excl, g.idx(s.Creator))
		}
		b := g.otherThan(excl...)
		return g.do(b, &rnstypes.MsgBuy{Creator: g.acc(b), Name: g.spell(n)})
	})
}

func (g *rnsGen) seqListExpireReregisterBuy() {
	// the seeded short-lived names
	var n string
	var e int64
	for _, k := range g.pool {
		if x, ok := g.short[k]; ok && x >= g.c.Height && (n == "" || g.rc.Chance(0.5)) {
			n, e = k, x
		}
	}
	if n == "" {
		return
	}
	g.enqueue(func() bool {
		o := g.ownerIdx(n)
		if o < 0 || !g.w.st.Names[n].live(g.c.Height) {
			return true
		}
		return g.do(o, &rnstypes.MsgList{Creator: g.acc(o), Name: n, Price: sdk.NewInt64Coin(rnsDenomA, int64(1000+g.rc.Intn(9_000_000)))})
	}, func() bool {
		p := g.w.st.Names[n]
		if p == nil {
			return true
		}
		e = p.Expires
		at := e + 1
		if g.rc.Chance(0.3) {
			at = e // exactly at the expiry height
		}
		return g.advanceTo(at)
	}, func() bool {
		o := g.ownerIdx(n)
		r := g.otherThan(o)
		return g.do(r, &rnstypes.MsgRegisterName{Creator: g.acc(r), Name: g.spell(n), Years: 1, Data: "{}"})
	}, func() bool {
		o := g.ownerIdx(n)
		excl := []int{o}
		if s, ok := g.w.st.Sales[n]; ok && g.rc.Chance(0.6) {
			excl = append(excl, g.idx(s.Creator))
		}
		b := g.otherThan(excl...)
		return g.do(b, &rnstypes.MsgBuy{Creator: g.acc(b), Name: n})
	})
}

func (g *rnsGen) seqPrevOwnerReplays() {
	var n string
	var old int
	g.enqueue(func() bool {
		var ok bool
		n, ok = g.ensureLive()
		if !ok {
			return false
		}
		old = g.ownerIdx(n)
		if old < 0 {
			return true
		}
		return g.do(old, &rnstypes.MsgAddRecord{Creator: g.acc(old), Name: n, Record: "app", Value: g.acc(old), Data: "{}"})
	}, func() bool {
		if old < 0 {
			return true
		}
		if g.rc.Chance(0.5) {
			if !g.do(old, &rnstypes.MsgList{Creator: g.acc(old), Name: n, Price: sdk.NewInt64Coin(rnsDenomA, 4242)}) {
				return false
			}
		}
		return g.do(old, &rnstypes.MsgTransfer{Creator: g.acc(old), Name: n, Receiver: g.acc(g.otherThan(old))})
	})
	replays := []func() bool{
		func() bool {
			return g.do(old, &rnstypes.MsgUpdate{Creator: g.acc(old), Name: g.spell(n), Data: `{"stolen":true}`})
		},
		func() bool {
			return g.do(old, &rnstypes.MsgAddRecord{Creator: g.acc(old), Name: n, Record: "evil", Value: g.acc(old), Data: "{}"})
		},
		func() bool { return g.do(old, &rnstypes.MsgDelRecord{Creator: g.acc(old), Name: "app." + n}) },
		func() bool { return g.do(old, &rnstypes.MsgDelist{Creator: g.acc(old), Name: n}) },
		func() bool {
			return g.do(old, &rnstypes.MsgTransfer{Creator: g.acc(old), Name: n, Receiver: g.acc(old)})
		},
		func() bool {
			return g.do(old, &rnstypes.MsgList{Creator: g.acc(old), Name: n, Price: sdk.NewInt64Coin(rnsDenomA, 1)})
		},
		func() bool {
			return g.do(old, &rnstypes.MsgAcceptBid{Creator: g.acc(old), Name: n, From: g.acc(g.bidderOn(n))})
		},
		func() bool {
			return g.do(old, &rnstypes.MsgBid{Creator: g.acc(old), Name: n, Bid: sdk.NewInt64Coin(rnsDenomA, 77)})
		},
	}
	g.rc.Rng.Shuffle(len(replays), func(i, j int) { replays[i], replays[j] = replays[j], replays[i] })
	k := 3 + g.rc.Intn(len(replays)-2)
	for _, f := range replays[:k] {
		f := f
		g.enqueue(func() bool {
			if old < 0 {
				return true
			}
			return f()
		})
	}
}

func (g *rnsGen) seqRepeatedBids() {
	n := g.pool[g.rc.Intn(len(g.pool))] // may be unregistered or expired: bids are allowed on anything
	b := g.rc.Intn(len(g.c.Accs))
	first := sdk.NewInt64Coin(rnsDenomA, g.rc.Pick([]int64{1000, 300, 5_000_000}))
	k := 1 + g.rc.Intn(3)
	g.enqueue(func() bool { return g.do(b, &rnstypes.MsgBid{Creator: g.acc(b), Name: g.spell(n), Bid: first}) })
	for i := 0; i < k; i++ {
		g.enqueue(func() bool {
			var c sdk.Coin
			switch g.rc.Intn(5) {
			case 0:
				c = sdk.NewCoin(rnsDenomA, first.Amount.AddRaw(int64(1+g.rc.Intn(5000)))) // larger
			case 1:
				c = sdk.NewCoin(rnsDenomA, first.Amount.QuoRaw(3)) // smaller
			case 2:
				c = sdk.NewInt64Coin(rnsDenomB, int64(1+g.rc.Intn(900))) // other denomination
			case 3:
				c = sdk.NewInt64Coin(rnsDenomA, 0)
			default:
				c = first
			}
			return g.do(b, &rnstypes.MsgBid{Creator: g.acc(b), Name: n, Bid: c})
		})
	}
	g.enqueue(func() bool {
		o := g.ownerIdx(n)
		if o >= 0 && g.w.st.Names[n].live(g.c.Height) && g.rc.Chance(0.5) {
			if g.rc.Chance(0.4) { // transfer between bid and accept
				to := g.otherThan(o)
				if !g.do(o, &rnstypes.MsgTransfer{Creator: g.acc(o), Name: n, Receiver: g.acc(to)}) {
					return false
				}
				if g.rc.Chance(0.5) { // the old owner tries first
					if !g.do(o, &rnstypes.MsgAcceptBid{Creator: g.acc(o), Name: n, From: g.acc(b)}) {
						return false
					}
				}
				o = g.ownerIdx(n)
				if o < 0 {
					return true
				}
			}
			return g.do(o, &rnstypes.MsgAcceptBid{Creator: g.acc(o), Name: n, From: g.acc(b)})
		}
		return g.do(b, &rnstypes.MsgCancelBid{Creator: g.acc(b), Name: g.spell(n)})
	})
	if g.rc.Chance(0.3) {
		g.enqueue(func() bool { return g.do(b, &rnstypes.MsgCancelBid{Creator: g.acc(b), Name: n}) }) // cancel twice
	}
}

func (g *rnsGen) seqRegisterAtExpiry() {
	var n string
	for _, k := range g.pool {
		if x, ok := g.short[k]; ok && x >= g.c.Height && (n == "" || g.rc.Chance(0.5)) {
			n = k
		}
	}
	if n == "" {
		return
	}
	g.enqueue(func() bool {
		p := g.w.st.Names[n]
		if p == nil || p.Expires < g.c.Height || p.Expires-g.c.Height > 20 {
			return true
		}
		return g.advanceTo(p.Expires)
	}, func() bool {
		o := g.ownerIdx(n)
		r := g.otherThan(o)
		if g.rc.Chance(0.2) && o >= 0 {
			r = o
		}
		return g.do(r, &rnstypes.MsgRegisterName{Creator: g.acc(r), Name: n, Years: 1 + int64(g.rc.Intn(2)), Data: "{}"})
	}, func() bool {
		// the account that believed it owned the name keeps using it
		if len(g.w.prev[n]) == 0 {
			return true
		}
		o := g.idx(g.w.prev[n][len(g.w.prev[n])-1])
		if o < 0 {
			return true
		}
		return g.do(o, &rnstypes.MsgUpdate{Creator: g.acc(o), Name: n, Data: `{"mine":1}`})
	})
}

func rnsLabel(rc *RunCtx, n int) string {
	const al = "abcdefghijklmnopqrstuvwxyz0123456789"
	b := make([]byte, n)
	for i := range b {
		b[i] = al[rc.Intn(len(al))]
	}
	if n >= 3 && rc.Chance(0.2) {
		b[1+rc.Intn(n-2)] = "-_"[rc.Intn(2)]
	}
	if n >= 3 && rc.Chance(0.1) {
		// a label that contains the letters of a TLD ("ibcfan.jkl", "myjkl.ibc"): the TLD is the suffix, nothing else
		copy(b[rc.Intn(n-2):], rc.PickS([]string{"ibc", "jkl"}))
	}
	return string(b)
}

func runRnsHistory(rc *RunCtx) {
	const nacc = 4
	tlds := []string{"jkl", "ibc"}
	e1 := int64(4 + rc.Intn(5))
	e2 := int64(11 + rc.Intn(8))
	used := map[string]bool{}
	fresh := func() string {
		for {
			n := rnsLabel(rc, 1+rc.Intn(8)) + "." + tlds[rc.Intn(2)]
			if !used[n] {
				used[n] = true
				return n
			}
		}
	}
	n1, n2, n3 := fresh(), fresh(), fresh()
	keys := make([]string, nacc)
	for i := range keys {
		keys[i] = sdk.AccAddress(chain.DeriveKey(rc.Seed, i).PubKey().Address()).String()
	}
	chain.SetBech32()
	mk := func(full string, owner int, exp int64, withRec bool) rnstypes.Names {
		label, tld := rnsSplit(full)
		n := rnstypes.Names{Name: label, Tld: tld, Expires: exp, Value: keys[owner], Data: "{}", Subdomains: []*rnstypes.Names{}}
		if withRec {
			n.Data = `{"seeded":true}`
			n.Subdomains = append(n.Subdomains, &rnstypes.Names{Name: "app", Tld: tld, Expires: exp, Value: keys[owner], Data: "{}"})
		}
		return n
	}
	o1, o2 := rc.Intn(nacc), rc.Intn(nacc)
	seeded := []rnstypes.Names{mk(n1, o1, e1, rc.Chance(0.5)), mk(n2, o2, e2, rc.Chance(0.3))}
	short := map[string]int64{n1: e1, n2: e2}
	pool := []string{n1, n2, n3}
	longLived := rc.Chance(0.6)
	if longLived {
		seeded = append(seeded, mk(n3, rc.Intn(nacc), 3*rnsYearBlocks, rc.Chance(0.3)))
	}
	if rc.Chance(0.4) {
		pool = append(pool, fresh())
	}
	// one more account (index nacc) that is drained at the start: a registrant and bidder that cannot pay
	c, err := chain.New(chain.Config{Seed: rc.Seed, NAcc: nacc + 1, Fund: rnsFund(), RnsNames: seeded})
	if err != nil {
		rc.Abort("init: " + err.Error())
		return
	}
	defer c.Close()
	for i := range keys {
		if keys[i] != c.Accs[i].Bech {
			rc.Abort("account derivation mismatch")
			return
		}
	}
	if _, err := c.BeginBlock(6e9); err != nil {
		rc.Abort("first block: " + err.Error())
		return
	}
	w, err := NewRW(rc, c)
	if err != nil {
		rc.Abort("observe: " + err.Error())
		return
	}
	pauper := nacc
	{
		keep := rc.Pick([]int64{0, 1, 999, 2_000_000})
		for _, cn := range c.App.BankKeeper.GetAllBalances(c.Ctx(), c.Accs[pauper].Addr) {
			amt := cn.Amount
			if cn.Denom == rnsDenomA {
				amt = amt.SubRaw(keep)
			}
			if amt.IsPositive() {
				c.DeliverAs(pauper, bankSend(c.Accs[pauper].Addr, c.Accs[0].Addr, sdk.NewCoins(sdk.NewCoin(cn.Denom, amt))))
			}
		}
		if st, err := w.observe(); err == nil {
			w.st = st
		}
	}
	g := &rnsGen{rc: rc, w: w, c: c, pool: pool, short: short}
	rc.Logf("names: %s (a%d, expires %d), %s (a%d, expires %d), %s (seeded long-lived: %v); pool %v", n1, o1, e1, n2, o2, e2, n3, longLived, pool)

	// 1..3 targeted sequences, interleaved with PRNG steps
	nseq := 1 + rc.Intn(3)
	for i := 0; i < nseq; i++ {
		switch rc.Intn(12) {
		case 11:
			g.seqBidThenBuy()
		case 10:
			g.seqStrangerRelists()
		case 9:
			g.seqRecordPath()
		case 8:
			g.seqInitCollision()
		case 0, 1:
			g.seqListThenMoveThenBuy("transfer")
		case 2:
			g.seqListThenMoveThenBuy("accept")
		case 3:
			g.seqListExpireReregisterBuy()
		case 4:
			g.seqPrevOwnerReplays()
		case 5, 6:
			g.seqRepeatedBids()
		case 7:
			g.seqRegisterAtExpiry()
		}
	}
	steps := 20 + rc.Intn(13)
	for s := 0; s < steps; s++ {
		if rc.Chance(0.55) {
			n := 1
			if rc.Chance(0.15) {
				n = 2 + rc.Intn(2)
			}
			for i := 0; i < n; i++ {
				if !w.Block() {
					return
				}
			}
		}
		if len(g.queue) > 0 && rc.Chance(0.6) {
			f := g.queue[0]
			g.queue = g.queue[1:]
			if !f() {
				return
			}
			continue
		}
		if rc.Chance(0.06) {
			// the account that cannot pay tries to register (the module account may well hold other people's bids)
			n := g.pickName()
			if rc.Chance(0.5) {
				n = fresh()
				g.pool = append(g.pool, n)
			}
			if !g.do(pauper, &rnstypes.MsgRegisterName{Creator: g.acc(pauper), Name: n, Years: 1, Data: "{}"}) {
				return
			}
			rc.Count("registrations_by_an_account_that_cannot_pay", 1)
			continue
		}
		if !g.randomStep() {
			return
		}
	}
	// drain what is left of the targeted sequences
	for len(g.queue) > 0 {
		f := g.queue[0]
		g.queue = g.queue[1:]
		if !f() {
			return
		}
	}
	if err := c.EndAndCommit(); err != nil {
		rc.Abort("last block: " + err.Error())
		return
	}
	rc.Sample(map[string]interface{}{"names": pool, "final_height": c.Height, "first_steps": w.line})
}

// seqInitCollision: somebody pays for the very name that the free-name generator (MsgInit) will hand out at
// an upcoming height; an account that has not used Init yet then sends MsgInit exactly at that height. The paid,
// live name must stay with its owner.
func (g *rnsGen) seqInitCollision() {
	h := g.c.Height + int64(2+g.rc.Intn(7))
	n := rnstypes.MakeName(int(h), h) + ".jkl"
	g.pool = append(g.pool, n)
	g.enqueue(func() bool {
		i := g.rc.Intn(len(g.c.Accs))
		return g.do(i, &rnstypes.MsgRegisterName{Creator: g.acc(i), Name: n, Years: 1, Data: `{"paid":true}`})
	}, func() bool {
		if g.c.Height > h {
			return true
		}
		if !g.advanceTo(h) {
			return false
		}
		i := g.otherThan(g.ownerIdx(n))
		return g.do(i, &rnstypes.MsgInit{Creator: g.acc(i)})
	})
}

// seqRecordPath: an account that does not own the live name v.tld owns another name m.tld, gives it a record labelled
// "v" that points at itself, and then sends owner-only messages that name the record path "v.m.tld". A record is not a
// name: none of these may touch v.tld (or anything else).
func (g *rnsGen) seqRecordPath() {
	var victim, m string
	var att int
	g.enqueue(func() bool {
		v, ok := g.ensureLive()
		if !ok {
			return false
		}
		victim = v
		vl, tld := rnsSplit(victim)
		att = g.otherThan(g.ownerIdx(victim))
		m = "m" + rnsLabel(g.rc, 3+g.rc.Intn(4)) + "." + tld
		g.pool = append(g.pool, m)
		if !g.do(att, &rnstypes.MsgRegisterName{Creator: g.acc(att), Name: m, Years: 1, Data: "{}"}) {
			return false
		}
		return g.do(att, &rnstypes.MsgAddRecord{Creator: g.acc(att), Name: m, Record: vl, Value: g.acc(att), Data: `{"rec":1}`})
	}, func() bool {
		if victim == "" {
			return true
		}
		vl, tld := rnsSplit(victim)
		ml, _ := rnsSplit(m)
		path := vl + "." + ml + "." + tld
		me := g.acc(att)
		g.rc.Count("record_path_attacks", 1)
		for _, k := range g.rc.Rng.Perm(5)[:2+g.rc.Intn(3)] {
			var msg sdk.Msg
			switch k {
			case 0:
				msg = &rnstypes.MsgTransfer{Creator: me, Name: path, Receiver: me}
			case 1:
				msg = &rnstypes.MsgUpdate{Creator: me, Name: path, Data: `{"taken":true}`}
			case 2:
				msg = &rnstypes.MsgList{Creator: me, Name: path, Price: sdk.NewInt64Coin(rnsDenomA, 5)}
			case 3:
				msg = &rnstypes.MsgAddRecord{Creator: me, Name: path, Record: "x", Value: me, Data: "{}"}
			default:
				msg = &rnstypes.MsgAcceptBid{Creator: me, Name: path, From: g.acc(g.bidderOn(victim))}
			}
			if !g.do(att, msg) {
				return false
			}
		}
		return true
	})
}

// seqStrangerRelists: the owner lists a live name at a real price; somebody else then sends List for the same name with
// a token price (and, sometimes, Delist); a third account buys. Whatever the purchase goes through must be the listing
// the owner created.
func (g *rnsGen) seqStrangerRelists() {
	var n string
	g.enqueue(func() bool {
		v, ok := g.ensureLive()
		if !ok {
			return false
		}
		n = v
		o := g.ownerIdx(n)
		if o < 0 {
			n = ""
			return true
		}
		if _, listed := g.w.st.Sales[n]; listed {
			return true
		}
		return g.do(o, &rnstypes.MsgList{Creator: g.acc(o), Name: n, Price: sdk.NewInt64Coin(rnsDenomA, int64(1_000_000+g.rc.Intn(9_000_000)))})
	}, func() bool {
		if n == "" {
			return true
		}
		st := g.otherThan(g.ownerIdx(n))
		g.rc.Count("listings_rewritten_by_a_stranger_attempts", 1)
		if !g.do(st, &rnstypes.MsgList{Creator: g.acc(st), Name: n, Price: sdk.NewInt64Coin(rnsDenomA, int64(1+g.rc.Intn(3)))}) {
			return false
		}
		if g.rc.Chance(0.3) {
			return g.do(st, &rnstypes.MsgDelist{Creator: g.acc(st), Name: n})
		}
		return true
	}, func() bool {
		if n == "" {
			return true
		}
		b := g.otherThan(g.ownerIdx(n))
		return g.do(b, &rnstypes.MsgBuy{Creator: g.acc(b), Name: n})
	})
}

// seqBidThenBuy: an account has an open bid on a name and then buys that name through its owner's listing. The bid
// stays the bidder's (escrowed until cancelled or accepted), whoever owns the name afterwards.
func (g *rnsGen) seqBidThenBuy() {
	var n string
	var b int
	g.enqueue(func() bool {
		v, ok := g.ensureLive()
		if !ok {
			return false
		}
		n = v
		o := g.ownerIdx(n)
		if o < 0 {
			n = ""
			return true
		}
		b = g.otherThan(o)
		if !g.do(b, &rnstypes.MsgBid{Creator: g.acc(b), Name: n, Bid: sdk.NewInt64Coin(rnsDenomA, int64(1000+g.rc.Intn(100000)))}) {
			return false
		}
		if _, listed := g.w.st.Sales[n]; listed {
			return true
		}
		return g.do(o, &rnstypes.MsgList{Creator: g.acc(o), Name: n, Price: sdk.NewInt64Coin(rnsDenomA, int64(1000+g.rc.Intn(1_000_000)))})
	}, func() bool {
		if n == "" {
			return true
		}
		return g.do(b, &rnstypes.MsgBuy{Creator: g.acc(b), Name: n})
	}, func() bool {
		if n == "" {
			return true
		}
		// the buyer takes its bid back
		return g.do(b, &rnstypes.MsgCancelBid{Creator: g.acc(b), Name: n})
	})
}
