package props

import (
	"fmt"
	"math"
	"math/big"
	"time"

	"github.com/cosmos/cosmos-sdk/types/query"

	"jkverif/chain"
	"jkverif/gen"

	storagetypes "github.com/jackalLabs/canine-chain/v4/x/storage/types"
)

// C07 – plan space accounting matches the files actually held.

func init() {
	Register(&Prop{
		ID:    "C07",
		Title: "Plan space accounting matches the files actually held",
		Cases: func(t string) int { return tierN(t, 160, 25000) },
		Run:   runC07,
		Rule: "case = one history of 25-45 steps by 3 owners: buy / upgrade / re-buy after expiry (1-20 GB), plan-paid and pay-once posts (sizes at the remaining-space boundary, the same merkle twice in one block, zero / negative / overflowing size x replication), deletes (own and foreign), honest proofs and deliberately skipped proofs so that reward blocks drop prover-less files, blocks with time steps up to 40 days; " +
			"oracle after every transaction and every BeginBlock, for every account with a plan: SpaceUsed (StoragePaymentInfo query) and GetClientFreeSpace agree with the sum of size x replication over that owner's live plan-paid files from AllFilesByOwner, 0 <= used <= available; a plan-paid post without a live plan or beyond the remaining space fails; failed posts leave the plan byte-identical; " +
			"non-trivial signature = the set of file-lifecycle paths exercised in the history (post, same-key re-post, owner delete, foreign delete attempt, chain drop, boundary post, rejected post, upgrade, re-buy) together with the oracle staying evaluable",
		Assumptions: []string{
			"footprint of a file = FileSize x MaxProofs as declared when it was posted; 'posted against the plan' = not a one-time payment, i.e. Expires <= 0",
		},
		MinNonTriv: 25,
	})
}

type c07mon struct {
	s     *SW
	rc    *RunCtx
	paths map[string]bool
}

func (m *c07mon) check(when string) {
	s, rc := m.s, m.rc
	rc.Eval(1)
	var ir storagetypes.QueryAllStoragePaymentInfoResponse
	if err := s.q("AllStoragePaymentInfo", &storagetypes.QueryAllStoragePaymentInfo{Pagination: pg()}, &ir); err != nil {
		rc.Abort("query: " + err.Error())
		return
	}
	for _, p := range ir.StoragePaymentInfo {
		var fr storagetypes.QueryAllFilesByOwnerResponse
		if err := s.q("AllFilesByOwner", &storagetypes.QueryAllFilesByOwner{Owner: p.Address, Pagination: &query.PageRequest{Limit: qPage}}, &fr); err != nil {
			rc.Abort("query: " + err.Error())
			return
		}
		sum := new(big.Int)
		n := 0
		for _, f := range fr.Files {
			if f.Owner != p.Address || f.Expires > 0 { // Expires > 0 = one-time payment; everything else is charged to the plan
				continue
			}
			n++
			sum.Add(sum, new(big.Int).Mul(big.NewInt(f.FileSize), big.NewInt(f.MaxProofs)))
		}
		var si storagetypes.QueryStoragePaymentInfoResponse
		if err := s.q("StoragePaymentInfo", &storagetypes.QueryStoragePaymentInfo{Address: p.Address}, &si); err != nil {
			rc.Fail("C07/plan-query-failed", "%s: StoragePaymentInfo(%s): %v", when, p.Address, err)
			continue
		}
		used := si.StoragePaymentInfo.SpaceUsed
		avail := si.StoragePaymentInfo.SpaceAvailable
		if big.NewInt(used).Cmp(sum) != 0 {
			rc.Fail("C07/used-vs-files", "%s: account %s reports %d bytes used, its %d live plan-paid files have a total footprint of %s (paths so far: %v)", when, p.Address, used, n, sum, keysOf(m.paths))
		}
		if used < 0 {
			rc.Fail("C07/used-negative", "%s: account %s reports %d bytes used", when, p.Address, used)
		}
		if used > avail {
			rc.Fail("C07/used-exceeds-available", "%s: account %s reports %d used > %d available", when, p.Address, used, avail)
		}
		var fs storagetypes.QueryClientFreeSpaceResponse
		if err := s.q("GetClientFreeSpace", &storagetypes.QueryClientFreeSpace{Address: p.Address}, &fs); err == nil {
			if fs.BytesFree != avail-used {
				rc.Fail("C07/free-space-query", "%s: GetClientFreeSpace(%s)=%d but available-used=%d", when, p.Address, fs.BytesFree, avail-used)
			}
		}
	}
}

func keysOf(m map[string]bool) []string {
	var out []string
	for k := range m {
		out = append(out, k)
	}
	sortStrings(out)
	return out
}

func runC07(rc *RunCtx) {
	W := int64(3 + rc.Intn(3))
	C := int64(2 + rc.Intn(3))
	sp := storageParams(W, C, 1024)
	c, err := chain.New(chain.Config{Seed: rc.Seed, NAcc: 5, Storage: sp})
	if err != nil {
		rc.Abort("init: " + err.Error())
		return
	}
	defer c.Close()
	s := &SW{rc: rc, c: c, RollbackProb: 0.05, UpperProb: 0.08}
	m := &c07mon{s: s, rc: rc, paths: map[string]bool{}}
	const GB = int64(1_000_000_000)
	step := func(dt time.Duration) bool {
		pre, _ := s.Observe()
		ro, err := s.StepBlock(dt)
		if err != nil {
			if _, ok := err.(*chain.PanicError); ok {
				rc.Abort("BeginBlock panic (C05 territory): " + err.Error())
			} else {
				rc.Abort(err.Error())
			}
			return false
		}
		if pre != nil && len(ro.Post.Files) < len(ro.Pre.Files) {
			m.paths["chain-drop"] = true
		}
		m.check(fmt.Sprintf("after BeginBlock h=%d", c.Height))
		return rc.res.Aborted == ""
	}
	if !step(6 * time.Second) {
		return
	}
	owners := []int{0, 1, 2}
	prover := 3
	type live struct {
		w      *WFile
		proven bool
	}
	var files []*live
	plan := func(o int) (storagetypes.StoragePaymentInfo, bool) {
		return c.App.StorageKeeper.GetStoragePaymentInfo(c.Ctx(), c.Accs[o].Bech)
	}
	planBytes := func(o int) string {
		p, ok := plan(o)
		if !ok {
			return "<none>"
		}
		return p.String()
	}
	nSteps := 25 + rc.Intn(21)
	for i := 0; i < nSteps; i++ {
		o := owners[rc.Intn(3)]
		switch k := rc.Intn(100); {
		case k < 14: // buy / upgrade / re-buy
			bytes := int64(1+rc.Intn(20)) * GB
			if rc.Chance(0.4) {
				bytes += int64(rc.Intn(int(GB))) // not a whole number of GB
			}
			if pi0, had0 := plan(o); had0 && pi0.SpaceUsed > 0 && (rc.Chance(0.3) || (pi0.End.Before(c.Time) && rc.Chance(0.7))) {
				// re-buy just above the current usage (boundary of the downsizing guard)
				bytes = pi0.SpaceUsed + int64(rc.Intn(3))
				if bytes < GB {
					bytes = GB + int64(rc.Intn(1000))
				}
			}
			days := int64(30 + rc.Intn(60))
			pi, had := plan(o)
			buyer := o
			if rc.Chance(0.25) {
				// somebody else pays for o's plan (a gift): o's usage and files are untouched by who pays
				buyer = (o + 1 + rc.Intn(4)) % 5
				rc.Count("gift_purchases", 1)
			}
			r := s.BuyPlan(buyer, o, bytes, days, "")
			rc.Logf("h=%d acc%d buys %d bytes %d days for acc%d -> %d %s", c.Height, buyer, bytes, days, o, r.Code, failLog(r))
			if r.OK() {
				if had && pi.End.After(c.Time) {
					m.paths["upgrade"] = true
				} else if had {
					m.paths["rebuy-after-expiry"] = true
				} else {
					m.paths["buy"] = true
				}
			}
		case k < 55: // post
			pi, had := plan(o)
			payOnce := rc.Chance(0.2)
			maxp := int64(1 + rc.Intn(3))
			var size int64
			kind := "plain"
			switch rc.Intn(10) {
			case 0:
				if had {
					rem := pi.SpaceAvailable - pi.SpaceUsed
					size = rem / maxp // exactly fits
					kind = "boundary-fit"
				}
			case 1:
				if had {
					rem := pi.SpaceAvailable - pi.SpaceUsed
					size = rem/maxp + 1 // one byte too many
					kind = "boundary-over"
				}
			case 2:
				size = []int64{0, -1000, -1}[rc.Intn(3)]
				kind = "nonpositive-size"
			case 3:
				size = 1 << 62
				maxp = 4
				kind = "overflow-product"
			case 4:
				maxp = []int64{0, -1}[rc.Intn(2)]
				size = 1000
				kind = "nonpositive-replication"
			case 5:
				maxp = int64(4 + rc.Intn(30))
				size = int64(1 + rc.Intn(5_000_000))
				kind = "high-replication"
			case 6:
				// a footprint that fits int64 on its own but overflows once added to existing usage
				maxp = int64(1 + rc.Intn(3))
				size = math.MaxInt64/maxp - int64(rc.Intn(1000))
				kind = "near-max-footprint"
			}
			if size == 0 && kind == "plain" {
				size = int64(1 + rc.Intn(int(GB)))
			}
			if kind == "boundary-fit" && size <= 0 {
				size = 1
				kind = "plain"
			}
			f := gen.NewFile(randBytes(rc.Rng, int64(1+rc.Intn(300))), 1024)
			expires := int64(0)
			if payOnce {
				expires = c.Height + 20000 + int64(rc.Intn(100000))
			} else if rc.Chance(0.08) {
				expires = -int64(1 + rc.Intn(1000)) // not a one-time payment (that needs Expires > 0): charged to the plan
				kind += "+negative-expires"
			}
			before := planBytes(o)
			usedBefore := pi.SpaceUsed
			w, r := s.PostFileSized(o, f, maxp, expires, size)
			rc.Logf("h=%d acc%d posts %s size=%d maxp=%d payonce=%v -> %d %s", c.Height, o, kind, size, maxp, payOnce, r.Code, failLog(r))
			if r.OK() {
				files = append(files, &live{w: w})
				m.paths["post-"+kind] = true
				if payOnce {
					m.paths["post-payonce"] = true
				}
				if !payOnce {
					foot := new(big.Int).Mul(big.NewInt(size), big.NewInt(maxp))
					lim := big.NewInt(pi.SpaceAvailable - usedBefore)
					if !had || pi.End.Before(c.Time) {
						rc.Fail("C07/post-without-live-plan-accepted", "plan-paid post by %s accepted without a live plan (had=%v end=%s now=%s)", c.Accs[o].Bech, had, pi.End, c.Time)
					} else if foot.Cmp(lim) > 0 {
						rc.Fail("C07/post-beyond-space-accepted", "plan-paid post with footprint %s accepted with only %s bytes remaining", foot, lim)
					}
				}
				// same merkle again in the same block (same key)
				if rc.Chance(0.25) {
					size2 := size
					if rc.Chance(0.5) && size > 2 {
						size2 = size / 2
					}
					_, r2 := s.PostFile(o, f, maxp, expires, size2)
					rc.Logf("h=%d acc%d re-posts the same merkle in the same block size=%d -> %d %s", c.Height, o, size2, r2.Code, failLog(r2))
					if r2.OK() {
						m.paths["same-key-repost"] = true
						files = files[:len(files)-1]
						files = append(files, &live{w: s.Files[len(s.Files)-1]})
					}
				}
			} else {
				m.paths["post-rejected-"+kind] = true
				if after := planBytes(o); after != before {
					rc.Fail("C07/failed-post-changed-plan", "failed post (%s) changed the plan record:\n before %s\n after  %s", clip(r.Log), before, after)
				}
			}
		case k < 70: // delete
			if len(files) == 0 {
				continue
			}
			j := rc.Intn(len(files))
			lf := files[j]
			by := lf.w.Owner
			foreign := rc.Chance(0.3)
			if foreign {
				by = (lf.w.Owner + 1) % 3
			}
			before := planBytes(lf.w.Owner)
			r := s.DeleteFile(by, lf.w)
			rc.Logf("h=%d acc%d deletes file of acc%d (foreign=%v) -> %d", c.Height, by, lf.w.Owner, foreign, r.Code)
			if foreign {
				m.paths["foreign-delete-attempt"] = true
				if after := planBytes(lf.w.Owner); after != before {
					rc.Fail("C07/foreign-delete-changed-plan", "a delete signed by another account changed the owner's plan record")
				}
			} else if r.OK() {
				m.paths["owner-delete"] = true
				files = append(files[:j], files[j+1:]...)
			}
		case k < 85: // honest proof keeps some files alive
			if len(files) == 0 {
				continue
			}
			lf := files[rc.Intn(len(files))]
			if lf.w.Size == lf.w.F.Size() || true {
				pr := s.ProveHonest(prover, lf.w)
				if pr.Success {
					lf.proven = true
					m.paths["proved"] = true
				}
			}
		default:
			dt := []time.Duration{6 * time.Second, time.Hour, 24 * time.Hour, 40 * 24 * time.Hour, 100 * 24 * time.Hour}[rc.Intn(5)]
			if pi, had := plan(o); had && pi.End.After(c.Time) && rc.Chance(0.3) {
				// the next block lands a fraction of a second after (or exactly on, or just before) the end of o's plan
				dt = pi.End.Sub(c.Time) + []time.Duration{300 * time.Millisecond, 1, 0, -1, -400 * time.Millisecond, time.Second}[rc.Intn(6)]
				if dt <= 0 {
					dt = time.Millisecond
				}
				m.paths["block-at-plan-end"] = true
			}
			if !step(dt) {
				return
			}
			continue
		}
		m.check(fmt.Sprintf("after tx step %d h=%d", i, c.Height))
		if rc.res.Aborted != "" {
			return
		}
	}
	// run past a couple of windows so prover-less files are dropped
	for i := int64(0); i < 2*W+2*C; i++ {
		if !step(6 * time.Second) {
			return
		}
	}
	for p := range m.paths {
		rc.NonTrivial(p)
	}
	rc.NonTrivial(fmt.Sprintf("combo:%v", keysOf(m.paths)))
	rc.Sample(map[string]interface{}{"W": W, "C": C, "paths": keysOf(m.paths), "trace_tail": tail(rc.Trace(), 6)})
}
