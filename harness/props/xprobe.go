package props

import (
	"strings"
	"time"

	"jkverif/chain"

	notiftypes "github.com/jackalLabs/canine-chain/v4/x/notifications/types"
)

func init() {
	Register(&Prop{ID: "XPROBE", Title: "probe", Cases: func(string) int { return 1 }, Run: func(rc *RunCtx) {
		c, _ := chain.New(chain.Config{Seed: 1, NAcc: 3})
		defer c.Close()
		c.NextBlock(time.Second)
		A := func(i int) string { return c.Accs[i].Bech }
		r := c.DeliverAs(0, &notiftypes.MsgBlockSenders{Creator: A(0), ToBlock: []string{A(1)}})
		rc.Logf("block: %d %s", r.Code, failLog(r))
		r = c.DeliverAs(1, &notiftypes.MsgCreateNotification{Creator: A(1), To: A(0), Contents: "{}"})
		rc.Logf("send lowercase: %d %s", r.Code, failLog(r))
		r = c.DeliverAs(1, &notiftypes.MsgCreateNotification{Creator: strings.ToUpper(A(1)), To: A(0), Contents: "{}"})
		rc.Logf("send UPPERCASE creator: %d %s", r.Code, failLog(r))
		var resp notiftypes.QueryAllNotificationsByAddressResponse
		c.GRPC("/canine_chain.notifications.Query/AllNotificationsByAddress", &notiftypes.QueryAllNotificationsByAddress{To: A(0)}, &resp)
		rc.Logf("inbox of blocker: %v", resp.Notifications)
	}})
}
