package props

import (
	"time"

	"jkverif/chain"
)

func init() {
	Register(&Prop{ID: "XPROBE", Title: "probe", Cases: func(string) int { return 1 }, Run: func(rc *RunCtx) {
		c, _ := chain.New(chain.Config{Seed: 1, NAcc: 3, GovVotingSeconds: 10})
		defer c.Close()
		c.NextBlock(time.Second)
		for _, kv := range [][3]string{{"jklmint", "MintDenom", `"!!"`}, {"storage", "CheckWindow", `"0"`}, {"storage", "ChunkSize", `"0"`}, {"storage", "ProofWindow", `"1"`}, {"jklmint", "StakerRatio", `"5000"`}} {
			err := c.ParamChange(kv[0], kv[1], kv[2])
			rc.Logf("%s/%s=%s -> %v", kv[0], kv[1], kv[2], err)
			if c.Dead {
				return
			}
			for i := 0; i < 3; i++ {
				if _, err := c.NextBlock(time.Second); err != nil {
					rc.Logf("block: %v", err)
					return
				}
			}
		}
	}})
}
