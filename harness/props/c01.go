package props

import (
	"encoding/json"
	"fmt"
	"sort"
	"strings"
	"time"

	"github.com/cosmos/cosmos-sdk/types/query"

	"jkverif/chain"
	"jkverif/gen"

	storagetypes "github.com/jackalLabs/canine-chain/v4/x/storage/types"
)

// C01 – no storage reward or prover status without a valid proof of the challenged chunk.

func init() {
	Register(&Prop{
		ID:    "C01",
		Title: "No storage reward or prover status without a valid proof of the challenged chunk",
		Cases: func(t string) int { return tierN(t, 160, 20000) },
		Run:   runC01,
		Rule: "case = one history: 1-2 files of 1-40 chunks (chunk size 1/16/1024, replication 1-4), 2 honest and 2-3 dishonest accounts, 10-24 proof submissions drawn from 14 payload classes (honest control + 13 mutation classes), every submission followed by reward blocks with live gauges; " +
			"oracle per submission: reference verifier (independent Merkle/leaf implementation + challenge read through the Proof query just before) says invalid => (File.Proofs, all ProofsByAddress(signer), signer balance) digest unchanged and Success=false; per reward block: hooked counted bytes of every prover <= bytes of files it has validly proven at least once and <= bytes of files whose last accepted valid proof (by the monitor's own record) lies in the previous full window or later, storage-module payees subset of validly-proven provers; " +
			"every fifth case is the attestation family: two provers of one file go silent, at the first block of the second window after their proofs one of them gets a unanimous attestation quorum (the other, lapsed, prover signs last when it is named), and at the following reward blocks only the one the quorum was for may still be counted or paid; " +
			"non-trivial signature = payload class x {newcomer,listed} x {room,full} of a reference-invalid submission that was followed by a reward block releasing tokens, or (attestation family) (W, C, form size, lapsed co-prover completes the quorum, quorum reached)",
		Assumptions: []string{
			"SHA-256 / SHA3-512 collision resistance (a payload that the reference verifier rejects cannot verify on chain by accident)",
			"the quorum rules themselves (who is named, how many distinct signers) are C14's; the attestation family here only uses unanimous forms (minimum == form size) and judges who stays credited afterwards",
		},
		MinNonTriv: 18,
	})
}

type c01World struct {
	*SW
	validEver map[string]map[string]bool  // prover -> file key -> ever validly proven
	lastValid map[string]map[string]int64 // prover -> file key -> height of the last valid proof the chain accepted
	lastProof map[string][3][]byte        // prover|file -> last honest (item, hashlist, idx-as-bytes)
	pending   []string                    // non-trivial signatures waiting for a paying reward block
}

func (w *c01World) digest(signer string, wf *WFile) string {
	var sb strings.Builder
	var fr storagetypes.QueryFileResponse
	if err := w.q("File", &storagetypes.QueryFile{Merkle: wf.F.Root(), Owner: wf.OwnerAddr, Start: wf.Start}, &fr); err == nil {
		sb.WriteString(strings.Join(fr.File.Proofs, ","))
	} else {
		sb.WriteString("<nofile>")
	}
	sb.WriteString("|")
	var pr storagetypes.QueryProofsByAddressResponse
	if err := w.q("ProofsByAddress", &storagetypes.QueryProofsByAddress{ProviderAddress: signer, Pagination: &query.PageRequest{Limit: qPage}}, &pr); err == nil {
		var xs []string
		for _, p := range pr.Proofs {
			bz, _ := p.Marshal()
			xs = append(xs, string(bz))
		}
		sort.Strings(xs)
		sb.WriteString(strings.Join(xs, ";"))
	}
	sb.WriteString("|")
	sb.WriteString(w.c.Snapshot()[signer].String())
	return sb.String()
}

func runC01(rc *RunCtx) {
	if rc.Case%5 == 4 {
		runC01Attest(rc)
		return
	}
	W := int64(3 + rc.Intn(4))
	C := int64(2 + rc.Intn(4))
	chunk := []int64{1, 16, 1024}[rc.Intn(3)]
	sp := storageParams(W, C, chunk)
	sp.CollateralPrice = 1000
	nDis := 2 + rc.Intn(2)
	// accounts: 0 owner, 1-2 honest, 3.. dishonest
	c, err := chain.New(chain.Config{Seed: rc.Seed, NAcc: 3 + nDis, Storage: sp})
	if err != nil {
		rc.Abort("init: " + err.Error())
		return
	}
	defer c.Close()
	w := &c01World{SW: &SW{rc: rc, c: c}, validEver: map[string]map[string]bool{}, lastValid: map[string]map[string]int64{}, lastProof: map[string][3][]byte{}}
	dts := []time.Duration{time.Hour, 24 * time.Hour, 6 * time.Second, 3 * time.Hour}
	rewardSeen := 0
	step := func() bool {
		ro, err := w.StepBlock(dts[rc.Intn(len(dts))])
		if err != nil {
			if pe, ok := err.(*chain.PanicError); ok {
				rc.Abort("BeginBlock panic (C05 territory): " + pe.Value)
			} else {
				rc.Abort(err.Error())
			}
			return false
		}
		if !ro.IsReward {
			return true
		}
		rc.Eval(1)
		rewardSeen++
		// bytes a prover may legitimately be counted for
		for p, got := range ro.Counted {
			var allowed, fresh int64
			for _, f := range ro.Pre.Files {
				if w.validEver[p][fileKey(f)] {
					allowed += f.FileSize
					// still credited only while its valid proofs keep coming: the last one the chain accepted must lie in
					// the previous full proof window or later (or the file is still in its first window)
					lv := w.lastValid[p][fileKey(f)]
					W := f.ProofInterval
					for _, wf := range w.Files { // the proof window of a file is the network parameter at post time, whatever the client asked for
						if wf.Key() == fileKey(f) && wf.Window > 0 {
							W = wf.Window
						}
					}
					if W <= 0 || ro.Height <= f.Start+W || lv >= f.Start+((ro.Height-f.Start)/W-1)*W {
						fresh += f.FileSize
					}
				}
			}
			if got > allowed {
				rc.Fail("C01/counted-without-valid-proof", "h=%d: prover %s counted for %d bytes at the reward block but has validly proven files totalling only %d bytes", ro.Height, p, got, allowed)
			} else if got > fresh {
				rc.Fail("C01/credited-after-proofs-lapsed", "h=%d: prover %s counted for %d bytes at the reward block, but the files for which its last accepted valid proof is recent enough total only %d bytes", ro.Height, p, got, fresh)
			}
		}
		// still listed after the reward block: only provers whose last accepted valid proof is recent enough (the reward
		// block drops everybody else; a prover that stays listed without proving stays credited without proving)
		for _, f := range ro.Post.Files {
			W := f.ProofInterval
			for _, wf := range w.Files {
				if wf.Key() == fileKey(f) && wf.Window > 0 {
					W = wf.Window
				}
			}
			if W <= 0 || ro.Height <= f.Start+W {
				continue
			}
			for _, pk := range f.Proofs {
				p := proverOfKey(pk)
				lv, ever := w.lastValid[p][fileKey(f)]
				if !ever || lv < f.Start+((ro.Height-f.Start)/W-1)*W {
					rc.Fail("C01/listed-after-proofs-lapsed", "h=%d: %s is still listed on file %s (start %d, window %d) after the reward block although its last accepted valid proof was at height %d (ever: %v)", ro.Height, p, fileKey(f)[:12], f.Start, W, lv, ever)
				}
			}
		}
		for acct, coins := range ro.Paid {
			if coins.IsZero() {
				continue
			}
			any := false
			for _, v := range w.validEver[acct] {
				any = any || v
			}
			if !any {
				rc.Fail("C01/paid-without-valid-proof", "h=%d: %s received %s storage rewards but never had a valid proof accepted for any file", ro.Height, acct, coins)
			}
		}
		if !ro.Released.IsZero() {
			for _, s := range w.pending {
				rc.NonTrivial(s)
			}
			w.pending = nil
		}
		return true
	}
	if !step() {
		return
	}
	if r := w.BuyPlan(0, 0, 30_000_000_000_000, int64(40+rc.Intn(400)), ""); !r.OK() {
		rc.Abort("buy: " + r.Log)
		return
	}
	for p := 1; p < len(c.Accs); p++ {
		if rc.Chance(0.5) {
			w.InitProvider(p, fmt.Sprintf("https://n%d.dom%d.example", p, p))
		}
	}
	nFiles := 1 + rc.Intn(2)
	for i := 0; i < nFiles; i++ {
		nch := int64(1 + rc.Intn(40))
		size := (nch-1)*chunk + 1 + int64(rc.Intn(int(chunk)))
		f := gen.NewFile(randBytes(rc.Rng, size), chunk)
		if rc.Chance(0.4) {
			w.ReqProofInterval = []int64{1, 2, W - 1, W + 1, 1000, 1 << 40, -5}[rc.Intn(7)]
		}
		if _, r := w.PostFile(0, f, int64(1+rc.Intn(4)), 0, -1); !r.OK() {
			rc.Abort("post: " + r.Log)
			return
		}
	}
	if !step() {
		return
	}
	nSub := 10 + rc.Intn(15)
	classes := []string{"honest", "honest", "other-chunk-bytes", "wrong-index", "bitflip-path", "nonjson-path", "truncated-path", "other-file-proof", "empty-item", "empty-path", "stale-replay", "index-field-tamper", "unknown-file", "wrong-start", "other-chunk-proof-claimed-as-challenge", "other-chunk-proof-claimed-as-challenge"}
	abandonAt := -1
	if rc.Chance(0.5) {
		abandonAt = nSub/3 + rc.Intn(nSub/2)
	}
	for n := 0; n < nSub; n++ {
		if n == abandonAt {
			// a file nobody ever proves, posted in the middle of the history: the chain drops it at the first reward block
			// after its first window, in the same sweep that has to deal with provers that have lapsed meanwhile
			n0 := len(w.Files)
			fa := gen.NewFile(randBytes(rc.Rng, int64(1+rc.Intn(3000))), chunk)
			if _, r := w.PostFile(0, fa, 2, 0, -1); r.OK() {
				w.Files = w.Files[:n0]
				rc.Count("abandoned_files", 1)
			}
		}
		wf := w.Files[rc.Intn(len(w.Files))]
		signer := 1 + rc.Intn(len(c.Accs)-1)
		honestActor := signer <= 2
		class := "honest"
		if !honestActor || rc.Chance(0.25) {
			class = classes[rc.Intn(len(classes))]
		}
		w.submit(signer, wf, class)
		if c.Dead {
			return
		}
		if rc.Chance(0.45) {
			if !step() {
				return
			}
		}
		// honest provers keep their files alive so that reward blocks pay
		if rc.Chance(0.5) {
			for hp := 1; hp <= 2; hp++ {
				for _, f := range w.Files {
					if w.validEver[c.Accs[hp].Bech][f.Key()] {
						w.submit(hp, f, "honest")
					}
				}
			}
		}
	}
	// make sure at least two paying reward blocks follow the last submission
	target := rewardSeen + 2
	for i := 0; rewardSeen < target && i < int(4*C+4*W); i++ {
		for hp := 1; hp <= 2; hp++ {
			for _, f := range w.Files {
				w.submit(hp, f, "honest")
			}
		}
		if !step() {
			return
		}
	}
	rc.Sample(map[string]interface{}{"W": W, "C": C, "chunk": chunk, "files": len(w.Files), "trace_tail": tail(rc.Trace(), 8)})
}

// submit builds a payload of the given class for (signer, file), evaluates the
// reference verifier, delivers it and checks the outcome.
func (w *c01World) submit(signer int, wf *WFile, class string) {
	rc, c := w.rc, w.c
	addr := c.Accs[signer].Bech
	// chain's view just before
	var fr storagetypes.QueryFileResponse
	fileExists := w.q("File", &storagetypes.QueryFile{Merkle: wf.F.Root(), Owner: wf.OwnerAddr, Start: wf.Start}, &fr) == nil
	listed := false
	full := false
	if fileExists {
		for _, pk := range fr.File.Proofs {
			if proverOfKey(pk) == addr {
				listed = true
			}
		}
		full = int64(len(fr.File.Proofs)) >= fr.File.MaxProofs
	}
	challenge, hasRec := w.Challenge(addr, wf)
	if !listed {
		challenge = 0
	}
	_ = hasRec
	n := wf.F.NChunks()
	merkle, owner, start := wf.F.Root(), wf.OwnerAddr, wf.Start
	toProve := challenge
	var item, hl []byte
	okIdx := challenge >= 0 && challenge < n
	if okIdx {
		item, hl = wf.F.Proof(challenge)
	}
	switch class {
	case "honest":
	case "other-chunk-bytes":
		if n >= 2 && okIdx {
			j := (challenge + 1 + int64(rc.Intn(int(n-1)))) % n
			item = wf.F.Chunks[j]
			if string(item) == string(wf.F.Chunks[challenge]) {
				item = append([]byte{0xff}, item...)
			}
		} else {
			item = append([]byte{0x42}, item...)
		}
	case "wrong-index":
		if n >= 2 {
			j := (challenge + 1 + int64(rc.Intn(int(n-1)))) % n
			toProve = j
			item, hl = wf.F.Proof(j)
		} else {
			toProve = challenge + 1
		}
	case "other-chunk-proof-claimed-as-challenge":
		// a holder of only one chunk (typically chunk 0) presents that chunk's perfectly valid proof under the challenged index
		if n >= 2 && okIdx {
			j := int64(0)
			if challenge == 0 || rc.Chance(0.3) {
				j = (challenge + 1 + int64(rc.Intn(int(n-1)))) % n
			}
			item, hl = wf.F.Proof(j)
			if string(item) == string(wf.F.Chunks[challenge]) {
				item = append([]byte{0x33}, item...)
			}
		} else {
			item = append([]byte{0x42}, item...)
		}
	case "bitflip-path":
		var p gen.ProofJSON
		json.Unmarshal(hl, &p)
		if len(p.Hashes) > 0 {
			k := rc.Intn(len(p.Hashes))
			h := append([]byte{}, p.Hashes[k]...)
			h[rc.Intn(len(h))] ^= 1 << uint(rc.Intn(8))
			p.Hashes[k] = h
			hl, _ = json.Marshal(p)
		} else {
			p.Hashes = [][]byte{make([]byte, 64)}
			hl, _ = json.Marshal(p)
		}
	case "nonjson-path":
		hl = []byte("not json at all {")
	case "truncated-path":
		if len(hl) > 3 {
			hl = hl[:len(hl)/2]
		} else {
			hl = []byte("{")
		}
	case "other-file-proof":
		other := gen.NewFile(randBytes(rc.Rng, int64(1+rc.Intn(64))), wf.F.ChunkSize)
		for _, o := range w.Files {
			if o != wf {
				other = o.F
			}
		}
		ix := toProve
		if ix >= other.NChunks() {
			ix = 0
		}
		item, hl = other.Proof(ix)
		if string(other.Root()) == string(wf.F.Root()) {
			item = append([]byte{1}, item...)
		}
	case "empty-item":
		item = nil
		if okIdx && len(wf.F.Chunks[challenge]) == 0 {
			item = []byte{1}
		}
	case "empty-path":
		hl = nil
	case "stale-replay":
		lp, ok := w.lastProof[addr+"|"+wf.Key()]
		if ok && string(lp[2]) != fmt.Sprint(challenge) {
			item, hl = lp[0], lp[1]
			fmt.Sscan(string(lp[2]), &toProve)
		} else if ok && n >= 2 {
			// challenge did not move: replay under a different index claim
			item, hl = lp[0], lp[1]
			toProve = (challenge + 1) % n
		} else {
			class = "honest"
		}
	case "index-field-tamper":
		var p gen.ProofJSON
		json.Unmarshal(hl, &p)
		p.Index = p.Index + 1 + uint64(rc.Intn(5))
		hl, _ = json.Marshal(p)
		if len(p.Hashes) == 0 { // single-chunk tree: the index field is irrelevant, tamper the item instead
			item = append([]byte{7}, item...)
		}
	case "unknown-file":
		merkle = append([]byte{}, merkle...)
		merkle[0] ^= 0x80
	case "wrong-start":
		start = start + 1 + int64(rc.Intn(3))
	}
	// reference verdict
	refExists := fileExists && class != "unknown-file" && class != "wrong-start"
	refValid := refExists && (listed || !full) && toProve == challenge && gen.RefVerify(wf.F.Root(), toProve, item, hl)
	pre := w.digest(addr, wf)
	pr := w.SubmitProof(signer, merkle, owner, start, toProve, item, hl)
	post := w.digest(addr, wf)
	rc.Eval(1)
	rc.Count("submissions", 1)
	rc.Logf("h=%d proof by acc%d class=%s listed=%v full=%v challenge=%d toProve=%d refValid=%v -> code=%d success=%v %s", c.Height, signer, class, listed, full, challenge, toProve, refValid, pr.Tx.Code, pr.Success, pr.ErrMsg)
	st := "newcomer"
	if listed {
		st = "listed"
	}
	rm := "room"
	if full {
		rm = "full"
	}
	if refValid {
		rc.Count("ref_valid", 1)
		if pr.Success {
			if w.validEver[addr] == nil {
				w.validEver[addr] = map[string]bool{}
			}
			w.validEver[addr][wf.Key()] = true
			if w.lastValid[addr] == nil {
				w.lastValid[addr] = map[string]int64{}
			}
			w.lastValid[addr][wf.Key()] = c.Height
			w.lastProof[addr+"|"+wf.Key()] = [3][]byte{item, hl, []byte(fmt.Sprint(toProve))}
		} else {
			rc.Count("ref_valid_rejected", 1)
		}
		return
	}
	rc.Count("ref_invalid", 1)
	if pr.Success {
		rc.Fail("C01/invalid-proof-accepted/"+class, "h=%d: %s (%s, file %s) submitted a %s payload the reference verifier rejects (toProve=%d challenge=%d) and the chain answered Success=true", c.Height, addr, st, rm, class, toProve, challenge)
	}
	if pre != post {
		rc.Fail("C01/invalid-proof-changed-state/"+st, "h=%d: rejected %s payload from %s (%s, file %s; response success=%v %q) changed prover list / proof records / balance:\n before %q\n after  %q", c.Height, class, addr, st, rm, pr.Success, pr.ErrMsg, clip(pre), clip(post))
	}
	w.pending = append(w.pending, class+"/"+st+"/"+rm)
}

func clip(s string) string {
	b := []byte(s)
	for i, ch := range b {
		if ch < 32 || ch > 126 {
			b[i] = '.'
		}
	}
	if len(b) > 500 {
		return string(b[:500]) + "..."
	}
	return string(b)
}

// runC01Attest: the other way of staying credited - a completed attestation quorum. Two provers P and A hold valid
// proofs of one file and then both stop proving. At the first block of the second window after their proofs (when a
// reward block would drop both) P asks for an attestation form and every provider named on it signs, A last if it is
// named. The quorum is for P: from then on P is credited as if it had proven at that height; nobody else's record may
// be refreshed by it. The reward-block oracle is the one of runC01 (hooked counted bytes of a prover never exceed the
// files for which its last valid proof, or completed quorum, is recent enough).
func runC01Attest(rc *RunCtx) {
	W := int64(3 + rc.Intn(4))
	C := int64(2 + rc.Intn(4))
	fs := int64(1 + rc.Intn(3))
	sp := storageParams(W, C, 1024)
	sp.CollateralPrice = 1000
	sp.AttestFormSize = fs
	sp.AttestMinToPass = fs
	c, err := chain.New(chain.Config{Seed: rc.Seed, NAcc: 5, Storage: sp})
	if err != nil {
		rc.Abort("init: " + err.Error())
		return
	}
	defer c.Close()
	s := &SW{rc: rc, c: c}
	const P, A = 1, 2
	lastValid := map[string]int64{} // prover address -> height of its last valid proof / completed quorum on F
	var wf *WFile
	quorumAt := int64(-1)
	step := func() bool {
		ro, err := s.StepBlock(6 * time.Second)
		if err != nil {
			if pe, ok := err.(*chain.PanicError); ok {
				rc.Abort("BeginBlock panic (C05 territory): " + pe.Value)
			} else {
				rc.Abort(err.Error())
			}
			return false
		}
		if !ro.IsReward || wf == nil {
			return true
		}
		rc.Eval(1)
		var f *storagetypes.UnifiedFile
		for i := range ro.Pre.Files {
			if fileKey(ro.Pre.Files[i]) == wf.Key() {
				f = &ro.Pre.Files[i]
			}
		}
		if f == nil {
			return true
		}
		for _, who := range []int{P, A} {
			addr := c.Accs[who].Bech
			got := ro.Counted[addr]
			lv, ever := lastValid[addr]
			fresh := ever && (ro.Height <= f.Start+W || lv >= f.Start+((ro.Height-f.Start)/W-1)*W)
			// the only other file in this world is proven by other accounts, so anything counted for P / A is F
			if got > 0 && !fresh {
				rc.Fail("C01/credited-after-proofs-lapsed/attestation", "h=%d (file start %d, window %d): acc%d is counted for %d bytes at the reward block, but its last valid proof or completed attestation quorum on the file was at height %d (quorum for acc%d completed at %d)", ro.Height, f.Start, W, who, got, lv, P, quorumAt)
			}
			if coins := ro.Paid[addr]; !coins.IsZero() && !fresh {
				rc.Fail("C01/paid-after-proofs-lapsed/attestation", "h=%d: acc%d received %s although neither a valid proof nor a completed quorum of its own is recent enough (last at %d)", ro.Height, who, coins, lv)
			}
		}
		return true
	}
	if !step() {
		return
	}
	if r := s.BuyPlan(0, 0, 30_000_000_000_000, 400, ""); !r.OK() {
		rc.Abort("buy: " + r.Log)
		return
	}
	for p := 1; p <= 4; p++ {
		if r := s.InitProvider(p, fmt.Sprintf("https://n%d.dom%d.example", p, p)); !r.OK() {
			rc.Abort("provider: " + r.Log)
			return
		}
	}
	// reach a start height whose window 2 does not begin on a reward height (the attestation must come before the
	// reward block that would drop the lapsed provers)
	for (c.Height+2*W)%C == 0 {
		if !step() {
			return
		}
	}
	f := gen.NewFile(randBytes(rc.Rng, int64(1+rc.Intn(5000))), 1024)
	g := gen.NewFile(randBytes(rc.Rng, int64(1+rc.Intn(5000))), 1024)
	var r chain.TxResult
	if wf, r = s.PostFile(0, f, 4, 0, -1); !r.OK() {
		rc.Abort("post: " + r.Log)
		return
	}
	wg, r := s.PostFile(0, g, 4, 0, -1)
	if !r.OK() {
		rc.Abort("post: " + r.Log)
		return
	}
	for _, who := range []int{P, A} {
		if pr := s.ProveHonest(who, wf); !pr.Success {
			rc.Abort("join: " + pr.ErrMsg)
			return
		}
		lastValid[c.Accs[who].Bech] = c.Height
	}
	for _, who := range []int{3, 4} {
		s.ProveHonest(who, wg)
	}
	S := wf.Start
	// the other providers keep their proofs on G fresh (they must stay active to be eligible); P and A go silent
	for c.Height < S+2*W {
		for _, who := range []int{3, 4} {
			s.ProveHonest(who, wg)
		}
		if !step() {
			return
		}
	}
	// first block of window 2, before any reward block of that window
	tx := c.DeliverAs(P, &storagetypes.MsgRequestAttestationForm{Creator: c.Accs[P].Bech, Merkle: f.Root(), Owner: wf.OwnerAddr, Start: wf.Start})
	var resp storagetypes.MsgRequestAttestationFormResponse
	if !tx.OK() || tx.MsgResponse(0, &resp) != nil || !resp.Success {
		rc.Logf("h=%d attestation form refused: %s %s", c.Height, clip(tx.Log), resp.Error)
		rc.Count("attest_form_refused", 1)
		for i := int64(0); i < W+C; i++ {
			if !step() {
				return
			}
		}
		rc.NonTrivial(fmt.Sprintf("attest/W%d/C%d/form%d/refused", W, C, fs))
		return
	}
	// distinct named providers, the lapsed co-prover last
	var signers []int
	aNamed := false
	seenNamed := map[int]bool{}
	for _, a := range resp.Providers {
		for i := 1; i <= 4; i++ {
			if c.Accs[i].Bech == a && i != A && !seenNamed[i] {
				seenNamed[i] = true
				signers = append(signers, i)
			}
		}
		if a == c.Accs[A].Bech {
			aNamed = true
		}
	}
	if aNamed {
		signers = append(signers, A) // the lapsed co-prover completes the quorum
	}
	// sometimes one named provider stays away and another signs twice instead: fs-1 distinct signers are no quorum
	short := fs >= 2 && len(signers) >= 2 && rc.Chance(0.4)
	order := append([]int{}, signers...)
	if short {
		order = append(order[:len(order)-1], order[0])
		rc.Count("attestation_forms_one_signer_short", 1)
	}
	distinct := map[int]bool{}
	for _, i := range order {
		r := c.DeliverAs(i, &storagetypes.MsgAttest{Creator: c.Accs[i].Bech, Prover: c.Accs[P].Bech, Merkle: f.Root(), Owner: wf.OwnerAddr, Start: wf.Start})
		rc.Logf("h=%d attest by acc%d -> code %d %s", c.Height, i, r.Code, failLog(r))
		if r.OK() {
			distinct[i] = true
		}
	}
	// the minimum equals the form size: the quorum is complete only when that many DISTINCT named providers have signed
	// (a form that names one provider twice, or a provider signing twice, does not get there)
	all := int64(len(distinct)) >= fs
	if all {
		quorumAt = c.Height
		lastValid[c.Accs[P].Bech] = c.Height
		rc.Count("attestation_quorums_completed", 1)
	}
	rc.Logf("h=%d form named %d providers (co-prover named: %v), quorum complete: %v", c.Height, len(resp.Providers), aNamed, all)
	for i := int64(0); i < W+C+1; i++ {
		for _, who := range []int{3, 4} {
			s.ProveHonest(who, wg)
		}
		if !step() {
			return
		}
	}
	rc.NonTrivial(fmt.Sprintf("attest/W%d/C%d/form%d/co-prover-completes=%v/quorum=%v", W, C, fs, aNamed, all))
	rc.Sample(map[string]interface{}{"family": "attestation", "W": W, "C": C, "form": fs, "start": S, "quorum_at": quorumAt, "co_prover_named": aNamed})
}
