package props

import (
	"encoding/json"
	"fmt"
	"github.com/cosmos/cosmos-sdk/codec"
	"sort"
	"strings"
	"time"

	sdk "github.com/cosmos/cosmos-sdk/types"
	"github.com/cosmos/cosmos-sdk/types/query"

	"jkverif/chain"

	ntypes "github.com/jackalLabs/canine-chain/v4/x/notifications/types"
	rnstypes "github.com/jackalLabs/canine-chain/v4/x/rns/types"
)

// C18 – an inbox lists exactly the notifications sent to it, not blocked and
// not deleted.
//
// Monitor: the reference model of notifmodel.go (Appendix A.5) is advanced by
// every (message, result code); after EVERY message and for EVERY address of
// the universe the three queries AllNotificationsByAddress, AllNotifications
// and Notification must equal the model exactly.

func init() {
	Register(&Prop{
		ID:    "C18",
		Title: "An inbox lists exactly the notifications sent to it, not blocked and not deleted",
		Cases: func(t string) int { return tierN(t, 200, 24000) },
		Run:   runC18,
		Rule: "case = one history of 25..55 steps among 4 accounts and 2 non-signing addresses: create (address / rns-name / case-variant / unknown / garbage targets, valid and invalid JSON, private bytes), same-block bursts of 2-3 sends from one sender to one recipient (via address and via name), " +
			"block-senders (by address, by name, with unresolvable targets), delete (recipient exact / wrong key, sender, stranger, crafted From strings, phantom key), MsgRegisterName / MsgTransfer of rns names mid-run, block boundaries; " +
			"one oracle evaluation = after one message or block boundary, for all 6 addresses AllNotificationsByAddress == model inbox, AllNotifications == union, point Notification == model for every model key and NotFound for probed absent keys, plus 'failed or foreign message leaves the notification store untouched'; " +
			"non-trivial signature = (situation actually reached [e.g. send/name-after-transfer/delivered, send/blocked-by-name/refused, delete/sender/no-effect, burst/same-key], size class of the recipient's inbox)",
		Assumptions: []string{
			"the model's view of rns is advanced by code-0 MsgRegisterName/MsgTransfer and cross-checked against the rns Name query; a disagreement makes the case inconclusive",
			"blocking by name: both readings are accepted (name resolved when the block is made / when the send is attempted); a send is a violation only if the sender is blocked under both",
			"a send the model would deliver but the chain refuses is not a violation (only code-0 sends count as 'successfully sent')",
			"order of entries inside a listing is not constrained",
			"block time is strictly increasing by >= 1 ms between blocks, so equal (sender, recipient, time) keys arise only inside one block",
		},
		MinNonTriv: 40,
	})
}

const (
	nfQByAddr = "/canine_chain.notifications.Query/AllNotificationsByAddress"
	nfQAll    = "/canine_chain.notifications.Query/AllNotifications"
	nfQOne    = "/canine_chain.notifications.Query/Notification"
)

type c18State struct {
	rc       *RunCtx
	c        *chain.Chain
	m        *nfModel
	universe []string // 4 accounts + 2 addresses that never sign
	label    map[string]string
	pool     []string // candidate rns names
	probes   []nfEntry
	reported map[string]bool
	nSent    int
	pending  []func() bool // forced follow-up steps (block-then-send scenarios)
	pgTick   int
}

func (s *c18State) fail(sig, f string, a ...interface{}) {
	if s.reported[sig] {
		s.rc.Logf("(again) %s: %s", sig, fmt.Sprintf(f, a...))
		return
	}
	s.reported[sig] = true
	s.rc.Fail(sig, f, a...)
}

func (s *c18State) who(addr string) string {
	if l, ok := s.label[addr]; ok {
		return l
	}
	return addr
}

func (e nfEntry) String() string {
	return fmt.Sprintf("{to:%s from:%s time:%d contents:%q private:%x}", e.To, e.From, e.Time, e.Contents, e.Private)
}

func nfSizeClass(n int) string {
	switch {
	case n == 0:
		return "0"
	case n == 1:
		return "1"
	case n <= 3:
		return "2-3"
	default:
		return "4+"
	}
}

func (s *c18State) nt(situation, recipient string) {
	s.rc.NonTrivial(fmt.Sprintf("%s/inbox=%s", situation, nfSizeClass(len(s.m.inbox[recipient]))))
}

func nfValidJSON(s string) bool { return json.Valid([]byte(s)) }

func nfFromChain(n ntypes.Notification) nfEntry {
	// the sender is an account: its upper-case spelling and its canonical spelling name the same sender
	from := n.From
	if a, err := sdk.AccAddressFromBech32(from); err == nil {
		from = a.String()
	}
	return nfEntry{To: n.To, From: from, Time: n.Time, Contents: n.Contents, Private: string(n.PrivateContents)}
}

func (s *c18State) isPhantom(e nfEntry) bool {
	return e.Time == 0 && e.Contents == "" && e.Private == "" && s.m.blockRecords(e.To)[e.From]
}

// check compares every query with the model. Returns false when the case must stop.
func (s *c18State) check(after string) bool {
	rc, c, m := s.rc, s.c, s.m
	rc.Eval(1)
	page := &query.PageRequest{Limit: 100000}
	for _, addr := range s.universe {
		var resp ntypes.QueryAllNotificationsByAddressResponse
		if err := c.GRPC(nfQByAddr, &ntypes.QueryAllNotificationsByAddress{To: addr, Pagination: page}, &resp); err != nil {
			s.fail("C18/inbox-query-fails", "after %s: AllNotificationsByAddress(%s): %v", after, s.who(addr), err)
			return false
		}
		chainCnt := map[nfEntry]int{}
		byKey := map[[2]string][]nfEntry{} // (from,time) -> chain entries
		for _, n := range resp.Notifications {
			e := nfFromChain(n)
			if e.To != addr {
				s.fail("C18/listed-under-wrong-address", "after %s: inbox of %s lists %s", after, s.who(addr), e)
				return false
			}
			chainCnt[e]++
			k := [2]string{e.From, fmt.Sprint(e.Time)}
			byKey[k] = append(byKey[k], e)
		}
		modelCnt := map[nfEntry]int{}
		for _, e := range m.inbox[addr] {
			modelCnt[e]++
		}
		var extra, missing []nfEntry
		for e, n := range chainCnt {
			for i := modelCnt[e]; i < n; i++ {
				extra = append(extra, e)
			}
		}
		for e, n := range modelCnt {
			for i := chainCnt[e]; i < n; i++ {
				missing = append(missing, e)
			}
		}
		sort.Slice(extra, func(i, j int) bool { return extra[i].String() < extra[j].String() })
		sort.Slice(missing, func(i, j int) bool { return missing[i].String() < missing[j].String() })
		// (1) block records surfacing as notifications
		var rest []nfEntry
		for _, e := range extra {
			if s.isPhantom(e) {
				s.fail("C18/phantom-entry-from-block-record", "after %s: inbox of %s lists %s, which nobody sent: %s made a block record for that sender and the record is listed as a notification with time 0", after, s.who(addr), e, s.who(addr))
				rc.Count("phantom-entries-seen", 1)
				continue
			}
			rest = append(rest, e)
		}
		extra = rest
		// (2) sends that shared (recipient, sender, time) and replaced one another
		var restM []nfEntry
		resynced := map[[2]string]bool{}
		for _, e := range missing {
			k := [2]string{e.From, fmt.Sprint(e.Time)}
			if resynced[k] {
				continue
			}
			var group []nfEntry
			for _, x := range m.inbox[addr] {
				if x.From == e.From && x.Time == e.Time {
					group = append(group, x)
				}
			}
			on := byKey[k]
			if len(group) >= 2 && len(on) == 1 && modelCnt[on[0]] >= 1 {
				s.fail("C18/same-key-send-overwritten", "after %s: %d sends from %s to %s at block time %d all returned code 0, but the inbox of %s holds only %s; lost: %s",
					after, len(group), s.who(e.From), s.who(addr), e.Time, s.who(addr), on[0], e)
				rc.Count("overwritten-sends-seen", 1)
				// resynchronise: the model adopts the single surviving entry
				var keep []nfEntry
				for _, x := range m.inbox[addr] {
					if x.From == e.From && x.Time == e.Time {
						continue
					}
					keep = append(keep, x)
				}
				m.inbox[addr] = append(keep, on[0])
				resynced[k] = true
				continue
			}
			restM = append(restM, e)
		}
		missing = restM
		if len(extra) > 0 || len(missing) > 0 {
			// pair up by key: same key, different payload = altered
			for _, e := range missing {
				for _, x := range extra {
					if x.From == e.From && x.Time == e.Time {
						s.fail("C18/altered-entry", "after %s: inbox of %s: sent %s, listed %s", after, s.who(addr), e, x)
						return false
					}
				}
			}
			if len(missing) > 0 {
				s.fail("C18/missing-entry", "after %s: inbox of %s lacks %s (model %d entries, chain %d)", after, s.who(addr), missing[0], len(m.inbox[addr]), len(resp.Notifications))
			}
			if len(extra) > 0 {
				s.fail("C18/extra-entry", "after %s: inbox of %s lists %s, which the model does not hold (never sent, or deleted)", after, s.who(addr), extra[0])
			}
			return false
		}
	}
	// AllNotifications == union of the inboxes
	var all ntypes.QueryAllNotificationsResponse
	if err := c.GRPC(nfQAll, &ntypes.QueryAllNotifications{Pagination: page}, &all); err != nil {
		s.fail("C18/all-query-fails", "after %s: AllNotifications: %v", after, err)
		return false
	}
	cnt := map[nfEntry]int{}
	for _, n := range all.Notifications {
		e := nfFromChain(n)
		if s.isPhantom(e) {
			continue
		}
		cnt[e]++
	}
	total := 0
	for _, in := range m.inbox {
		for _, e := range in {
			cnt[e]--
			total++
		}
	}
	for e, n := range cnt {
		if n > 0 {
			s.fail("C18/all-notifications-extra", "after %s: AllNotifications lists %s, not in any model inbox", after, e)
			return false
		}
		if n < 0 {
			s.fail("C18/all-notifications-missing", "after %s: AllNotifications lacks %s", after, e)
			return false
		}
	}
	// point queries: every model key answers with the model entry; probed absent keys answer NotFound
	for _, in := range m.inbox {
		for _, e := range in {
			var one ntypes.QueryNotificationResponse
			err := c.GRPC(nfQOne, &ntypes.QueryNotification{To: e.To, From: e.From, Time: e.Time}, &one)
			if err != nil {
				s.fail("C18/point-query-misses-entry", "after %s: Notification(%s,%s,%d): %v", after, s.who(e.To), s.who(e.From), e.Time, err)
				return false
			}
			if g := nfFromChain(one.Notification); g != e {
				// two model entries may share a key only transiently (resynced above); compare against any of them
				ok := false
				for _, x := range in {
					if x == g {
						ok = true
					}
				}
				if !ok {
					s.fail("C18/point-query-differs", "after %s: Notification(%s,%s,%d) = %s, model %s", after, s.who(e.To), s.who(e.From), e.Time, g, e)
					return false
				}
			}
		}
	}
	for _, p := range s.probes {
		held := false
		for _, x := range m.inbox[p.To] {
			if x.From == p.From && x.Time == p.Time {
				held = true
			}
		}
		if held {
			continue
		}
		var one ntypes.QueryNotificationResponse
		if err := c.GRPC(nfQOne, &ntypes.QueryNotification{To: p.To, From: p.From, Time: p.Time}, &one); err == nil {
			s.fail("C18/point-query-finds-absent", "after %s: Notification(%s,%s,%d) answers %s but the model holds no such entry", after, s.who(p.To), s.who(p.From), p.Time, nfFromChain(one.Notification))
			return false
		}
	}
	if len(s.probes) > 24 {
		s.probes = s.probes[len(s.probes)-24:]
	}
	// a client paging through an inbox sees what the one-shot listing shows (paging.go), every 3rd check
	s.pgTick++
	if s.pgTick%3 == 0 {
		addr := s.universe[(s.pgTick/3)%len(s.universe)]
		checkPaging(rc, c, []listQuery{
			{Path: nfQByAddr, Req: func() codec.ProtoMarshaler { return &ntypes.QueryAllNotificationsByAddress{To: addr} }, Resp: &ntypes.QueryAllNotificationsByAddressResponse{}},
			{Path: nfQAll, Req: func() codec.ProtoMarshaler { return &ntypes.QueryAllNotifications{} }, Resp: &ntypes.QueryAllNotificationsResponse{}},
		}, s.pgTick/3)
	}
	return true
}

// deliver sends one message, logs it, applies the "failed / foreign message
// leaves the notification store untouched" guard and returns the result.
func (s *c18State) deliver(i int, desc string, foreign bool, msg sdk.Msg) (chain.TxResult, bool) {
	pre := s.c.KV(ntypes.StoreKey)
	var res chain.TxResult
	if s.rc.Chance(0.04) {
		// one transaction: the message, then a transfer of more than the signer owns; refused as a whole
		huge, _ := sdk.NewIntFromString("1000000000000000000000000000000")
		res = s.c.DeliverAs(i, msg, bankSend(s.c.Accs[i].Addr, s.c.Accs[(i+1)%len(s.c.Accs)].Addr, sdk.NewCoins(sdk.NewCoin("ujkl", huge))))
		s.rc.Count("messages_in_a_transaction_that_rolls_back", 1)
		desc += " [+ failing transfer]"
	} else {
		res = s.c.DeliverAs(i, msg)
	}
	s.rc.Logf("h=%d t=%d a%d %s -> code=%d%s", s.c.Height, s.c.Time.UnixMicro(), i, desc, res.Code, nfLogTail(res))
	if res.Code == 1<<30 {
		s.rc.Abort("tx could not be built: " + res.Log)
		return res, false
	}
	if res.Code != 0 || foreign {
		if d := chain.KVDiff(pre, s.c.KV(ntypes.StoreKey)); len(d) > 0 {
			sig := "C18/failed-message-changed-store"
			if res.Code == 0 {
				sig = "C18/foreign-message-changed-store"
			}
			s.fail(sig, "%s (code %d) changed the notification store: key %q", desc, res.Code, d[0].Key)
			return res, false
		}
	}
	return res, true
}

var c18Contents = []string{`{}`, `{"msg":"hi"}`, `[]`, `"str"`, `123`, `null`, `{"a":{"b":[1,2,"x"]}}`, `{"ü":"√☃"}`, `{"msg":"a/b/c"}`, ` {"padded": true} `}

func (s *c18State) contents() string {
	if s.rc.Chance(0.04) {
		return []string{"hey", "{", `{"a":}`, ""}[s.rc.Intn(4)]
	}
	s.nSent++
	if s.rc.Chance(0.5) {
		return fmt.Sprintf(`{"n":%d}`, s.nSent)
	}
	return c18Contents[s.rc.Intn(len(c18Contents))]
}

// targetsFor lists strings that (per the model) resolve to r.
func (s *c18State) targetsFor(r string) []string {
	out := []string{r}
	var ns []string
	for n, o := range s.m.names {
		if o == r {
			ns = append(ns, n)
		}
	}
	sort.Strings(ns)
	for _, n := range ns {
		out = append(out, n)
		if s.rc.Chance(0.3) {
			out = append(out, strings.ToUpper(n[:len(n)-4])+n[len(n)-4:])
		}
	}
	return out
}

func (s *c18State) anyName() (string, bool) {
	var ns []string
	for n := range s.m.names {
		ns = append(ns, n)
	}
	if len(ns) == 0 {
		return "", false
	}
	sort.Strings(ns)
	return ns[s.rc.Intn(len(ns))], true
}

// send delivers one CreateNotification and advances the model.
func (s *c18State) send(i int, to, contents string, private []byte, situation string) bool {
	m, c := s.m, s.c
	x := c.Accs[i].Bech
	r, resolvable := m.resolve(to)
	blkA, blkB := false, false
	if resolvable {
		blkA, blkB = m.blocked(r, x)
	}
	// the same account may spell its own address in upper case (valid bech32, same signer): identity is the account, not the spelling
	xs := x
	if s.rc.Chance(0.15) {
		xs = strings.ToUpper(x)
	}
	desc := fmt.Sprintf("create creator=%s to=%q contents=%q private=%x [model: resolves to %s, blocked(A=%v,B=%v)]", spelling(xs, x), to, contents, private, s.who(r), blkA, blkB)
	res, ok := s.deliver(i, desc, false, &ntypes.MsgCreateNotification{Creator: xs, To: to, Contents: contents, PrivateContents: private})
	if !ok {
		return false
	}
	s.rc.Count("create", 1)
	if res.Code != 0 {
		switch {
		case !resolvable:
			s.nt("send/unresolvable/refused", "")
		case blkA || blkB:
			kind := "send/blocked/refused"
			if !m.blockDirect[r][x] {
				kind = "send/blocked-by-name/refused"
			}
			s.nt(kind, r)
		case !nfValidJSON(contents):
			s.nt("send/invalid-json/refused", r)
		case s.holdsKey(r, x, c.Time.UnixMicro()):
			// a second send with the key (recipient, sender, block time) of a held entry: refusing it is allowed
			s.nt("send/same-key/refused", r)
			s.rc.Count("same-key-send-refused", 1)
		default:
			s.rc.Count("deliverable-send-refused", 1)
			s.rc.Logf("note: the model would have delivered this send")
		}
		return s.check(desc)
	}
	s.rc.Count("create-ok", 1)
	if !resolvable {
		s.fail("C18/send-to-unresolvable-accepted", "%s returned code 0 but the target resolves to nobody in the model's view of rns", desc)
		return false
	}
	if blkA && blkB {
		s.fail("C18/blocked-sender-delivered", "%s returned code 0 although %s blocks %s", desc, s.who(r), s.who(x))
		return false
	}
	if blkA != blkB {
		s.rc.Count("ambiguous-block-reading-accepted", 1)
	}
	dup := false
	t := c.Time.UnixMicro()
	for _, e := range m.inbox[r] {
		if e.From == x && e.Time == t {
			dup = true
		}
	}
	m.deliver(r, x, t, contents, private)
	sit := situation
	if sit == "" {
		switch {
		case to == r:
			sit = "send/addr/delivered"
		case nfIsAddress(to):
			sit = "send/addr-noncanonical/delivered"
		default:
			sit = "send/name/delivered"
		}
		if len(m.blockRecords(r)) > 0 {
			sit += "+recipient-blocks-others"
		}
	}
	if dup {
		sit += "+same-key"
	}
	s.nt(sit, r)
	return s.check(desc)
}

func (s *c18State) holdsKey(r, from string, t int64) bool {
	for _, e := range s.m.inbox[r] {
		if e.From == from && e.Time == t {
			return true
		}
	}
	return false
}

func (s *c18State) block(i int, targets []string) bool {
	m, c := s.m, s.c
	x := c.Accs[i].Bech
	allOK := true
	for _, t := range targets {
		if _, ok := m.resolve(t); !ok {
			allOK = false
		}
	}
	desc := fmt.Sprintf("block-senders %q [model: all resolvable=%v]", targets, allOK)
	res, ok := s.deliver(i, desc, false, &ntypes.MsgBlockSenders{Creator: x, ToBlock: targets})
	if !ok {
		return false
	}
	s.rc.Count("block", 1)
	if res.Code == 0 {
		if !allOK {
			s.rc.Abort("block-senders accepted a target the model cannot resolve; the model cannot follow")
			return false
		}
		byName := false
		for _, t := range targets {
			m.addBlock(x, t)
			if !nfIsAddress(t) {
				byName = true
			}
		}
		if byName {
			s.nt("block/by-name", x)
		} else {
			s.nt("block/by-address", x)
		}
	} else {
		s.nt("block/refused", x)
	}
	return s.check(desc)
}

func (s *c18State) del(i int, from string, t int64, situation string) bool {
	m, c := s.m, s.c
	x := c.Accs[i].Bech
	desc := fmt.Sprintf("delete from=%q time=%d (%s)", from, t, situation)
	res, ok := s.deliver(i, desc, false, &ntypes.MsgDeleteNotification{Creator: x, From: from, Time: t})
	if !ok {
		return false
	}
	s.rc.Count("delete", 1)
	if res.Code == 0 {
		n := m.remove(x, from, t)
		if n > 0 {
			s.nt("delete/"+situation+"/removed", x)
		} else {
			s.nt("delete/"+situation+"/no-effect", x)
		}
	} else {
		s.nt("delete/"+situation+"/refused", x)
	}
	s.probes = append(s.probes, nfEntry{To: x, From: from, Time: t})
	return s.check(desc)
}

func (s *c18State) rnsCheck(name string) bool {
	var resp rnstypes.QueryNameResponse
	err := s.c.GRPC("/canine_chain.rns.Query/Name", &rnstypes.QueryName{Name: name}, &resp)
	want, has := s.m.names[name]
	if (err == nil) != has || (has && resp.Name.Value != want) {
		s.rc.Abort(fmt.Sprintf("model's view of rns diverged for %s: chain (%v, %q) model (%v, %q)", name, err, resp.Name.Value, has, want))
		return false
	}
	return true
}

func (s *c18State) register(i int, name string) bool {
	x := s.c.Accs[i].Bech
	desc := fmt.Sprintf("rns register-name %s", name)
	res, ok := s.deliver(i, desc, true, &rnstypes.MsgRegisterName{Creator: x, Name: name, Years: 1, Data: "{}", SetPrimary: false})
	if !ok {
		return false
	}
	if res.Code == 0 {
		s.m.names[strings.ToLower(name)] = x
		s.rc.Count("rns-register-ok", 1)
	}
	if !s.rnsCheck(strings.ToLower(name)) {
		return false
	}
	return s.check(desc)
}

func (s *c18State) transfer(i int, name, to string) bool {
	x := s.c.Accs[i].Bech
	desc := fmt.Sprintf("rns transfer %s -> %s", name, s.who(to))
	res, ok := s.deliver(i, desc, true, &rnstypes.MsgTransfer{Creator: x, Name: name, Receiver: to})
	if !ok {
		return false
	}
	if res.Code == 0 {
		s.m.names[strings.ToLower(name)] = to
		s.rc.Count("rns-transfer-ok", 1)
		s.rc.NonTrivial("rns/transfer")
	}
	if !s.rnsCheck(strings.ToLower(name)) {
		return false
	}
	return s.check(desc)
}

func (s *c18State) newBlock() bool {
	dts := []time.Duration{time.Second, 6 * time.Second, time.Millisecond, time.Hour, 6 * time.Second}
	if _, err := s.c.NextBlock(dts[s.rc.Intn(len(dts))]); err != nil {
		s.rc.Abort("block: " + err.Error())
		return false
	}
	return s.check("block boundary")
}

func runC18(rc *RunCtx) {
	c, err := chain.New(chain.Config{Seed: rc.Seed*977 + int64(rc.Case%5), NAcc: 4})
	if err != nil {
		rc.Abort("init: " + err.Error())
		return
	}
	defer c.Close()
	if _, err := c.BeginBlock(6 * time.Second); err != nil {
		rc.Abort("beginblock: " + err.Error())
		return
	}
	s := &c18State{rc: rc, c: c, m: newNfModel(), label: map[string]string{}, reported: map[string]bool{}}
	for i, a := range c.Accs {
		s.universe = append(s.universe, a.Bech)
		s.label[a.Bech] = fmt.Sprintf("a%d", i)
		rc.Logf("a%d = %s", i, a.Bech)
	}
	for i := 0; i < 2; i++ {
		e := sdk.AccAddress([]byte(fmt.Sprintf("c18-external-addr-%02d", i))).String()
		if i == 1 {
			// a valid 32-byte address whose bech32 text starts with the complete bech32 text of one of the accounts
			// (its 20 bytes, then the 30 bits that spell that account's checksum characters, then zeros): a different
			// inbox, whose store keys begin with the text of the shorter address
			if x, ok := c18PrefixExtension(c.Accs[rc.Intn(4)].Bech); ok {
				e = x
				rc.Count("prefix_extension_addresses", 1)
			}
		}
		s.universe = append(s.universe, e)
		s.label[e] = fmt.Sprintf("ext%d", i)
	}
	s.pool = []string{"alice.jkl", "bobby.jkl", "carol.jkl", "dave-1.jkl", "erin_x.ibc"}
	if !s.check("genesis") {
		return
	}
	// a few names up front so that name targets exist from the start
	for i := 0; i < 1+rc.Intn(3); i++ {
		if !s.register(rc.Intn(4), s.pool[i]) {
			return
		}
	}
	steps := 25 + rc.Intn(31)
	for n := 0; n < steps; n++ {
		if len(s.pending) > 0 {
			f := s.pending[0]
			s.pending = s.pending[1:]
			if !f() {
				return
			}
			continue
		}
		i := rc.Intn(4)
		x := c.Accs[i].Bech
		switch w := rc.Intn(100); {
		case w < 36: // single send
			var to string
			switch k := rc.Intn(100); {
			case k < 55:
				to = c.Accs[rc.Intn(4)].Bech
			case k < 80:
				if nm, ok := s.anyName(); ok {
					to = nm
					if rc.Chance(0.15) {
						to = strings.ToUpper(nm[:len(nm)-4]) + nm[len(nm)-4:]
					}
				} else {
					to = c.Accs[rc.Intn(4)].Bech
				}
			case k < 87:
				to = s.universe[4+rc.Intn(2)]
			case k < 90:
				to = strings.ToUpper(c.Accs[rc.Intn(4)].Bech)
			case k < 94:
				to = "nobody.jkl"
			default:
				to = []string{"", "x", "jkl1invalid", "alice.JKL", "cosmos1qypqxpq9qcrsszg2pvxq6rs0zqg3yyc5lzv7xu", "a/b.jkl", x + "/" + x}[rc.Intn(7)]
			}
			var priv []byte
			if rc.Chance(0.4) {
				priv = make([]byte, 1+rc.Intn(8))
				rc.Rng.Read(priv)
			}
			if !s.send(i, to, s.contents(), priv, "") {
				return
			}
		case w < 48: // burst: several sends from one sender to one recipient inside this block
			r := s.universe[rc.Intn(len(s.universe))]
			tg := s.targetsFor(r)
			k := 2 + rc.Intn(2)
			same := rc.Chance(0.3)
			ct := s.contents()
			for j := 0; j < k; j++ {
				if !same {
					ct = s.contents()
				}
				if !s.send(i, tg[rc.Intn(len(tg))], ct, nil, "burst") {
					return
				}
			}
		case w < 59: // block senders
			var targets []string
			k := 1 + rc.Intn(3)
			var blockedIdx []int
			for j := 0; j < k; j++ {
				switch q := rc.Intn(100); {
				case q < 50:
					b := rc.Intn(4)
					targets = append(targets, c.Accs[b].Bech)
					blockedIdx = append(blockedIdx, b)
				case q < 85:
					if nm, ok := s.anyName(); ok {
						targets = append(targets, nm)
						for b, a := range c.Accs {
							if a.Bech == s.m.names[nm] {
								blockedIdx = append(blockedIdx, b)
							}
						}
					} else {
						targets = append(targets, c.Accs[rc.Intn(4)].Bech)
					}
				case q < 92:
					targets = append(targets, s.universe[4+rc.Intn(2)])
				default:
					targets = append(targets, []string{"nobody.jkl", "", "garbage"}[rc.Intn(3)])
				}
			}
			if !s.block(i, targets) {
				return
			}
			// block-before-send: the blocked party tries right away (via address or name)
			if len(blockedIdx) > 0 && rc.Chance(0.7) {
				b := blockedIdx[rc.Intn(len(blockedIdx))]
				blocker := x
				s.pending = append(s.pending, func() bool {
					tg := s.targetsFor(blocker)
					return s.send(b, tg[rc.Intn(len(tg))], s.contents(), nil, "")
				})
			}
		case w < 76: // delete
			// pick an existing entry
			var cands []nfEntry
			for _, a := range s.universe {
				cands = append(cands, s.m.inbox[a]...)
			}
			if len(cands) == 0 {
				if !s.del(i, c.Accs[rc.Intn(4)].Bech, c.Time.UnixMicro(), "recipient-nothing-there") {
					return
				}
				break
			}
			e := cands[rc.Intn(len(cands))]
			idx := func(b string) int {
				for j, a := range c.Accs {
					if a.Bech == b {
						return j
					}
				}
				return -1
			}
			ri, si := idx(e.To), idx(e.From)
			switch k := rc.Intn(100); {
			case k < 42 && ri >= 0:
				if !s.del(ri, e.From, e.Time, "recipient") {
					return
				}
			case k < 52 && ri >= 0:
				if rc.Chance(0.5) {
					// a time at which nothing was delivered: a neighbour, or a number whose decimal spelling is a prefix / an extension of the real one
					wrongT := []int64{e.Time + 1, e.Time - 1, e.Time / 10, e.Time / 1000, c18FirstDigit(e.Time), e.Time * 10}[rc.Intn(6)]
					if !s.del(ri, e.From, wrongT, "recipient-wrong-time") {
						return
					}
				} else if !s.del(ri, c.Accs[(si+1+rc.Intn(3))%4].Bech, e.Time, "recipient-wrong-sender") {
					return
				}
			case k < 66 && si >= 0 && si != ri:
				if !s.del(si, e.From, e.Time, "sender") {
					return
				}
			case k < 76 && si >= 0 && si != ri:
				if !s.del(si, e.To+"/"+e.From, e.Time, "sender-crafted") {
					return
				}
			default:
				st := rc.Intn(4)
				for st == ri {
					st = rc.Intn(4)
				}
				crafted := []string{e.From, e.To + "/" + e.From, "../" + e.To + "/" + e.From, e.From + fmt.Sprintf("/%d", e.Time), "", e.To, "/" + e.To + "/" + e.From, e.To + "/" + e.From + fmt.Sprintf("/%d", e.Time)}
				if !s.del(st, crafted[rc.Intn(len(crafted))], e.Time, "stranger-crafted") {
					return
				}
			}
			// the key of a block record read as a notification key
			if br := s.m.blockRecords(x); len(br) > 0 && rc.Chance(0.25) {
				var bs []string
				for b := range br {
					bs = append(bs, b)
				}
				sort.Strings(bs)
				if !s.del(i, bs[rc.Intn(len(bs))], 0, "phantom-key") {
					return
				}
			}
		case w < 88:
			if !s.newBlock() {
				return
			}
		case w < 93: // register
			name := s.pool[rc.Intn(len(s.pool))]
			if !s.register(i, name) {
				return
			}
		default: // transfer (by the owner most of the time)
			nm, ok := s.anyName()
			if !ok {
				continue
			}
			from := i
			if rc.Chance(0.8) {
				for j, a := range c.Accs {
					if a.Bech == s.m.names[nm] {
						from = j
					}
				}
			}
			to := s.universe[rc.Intn(len(s.universe))]
			oldOwner := s.m.names[nm]
			if !s.transfer(from, nm, to) {
				return
			}
			if s.m.names[nm] == to && to != oldOwner && rc.Chance(0.8) {
				// a send via the name right after the transfer must reach the new owner
				snd := rc.Intn(4)
				name := nm
				s.pending = append(s.pending, func() bool {
					return s.send(snd, name, s.contents(), nil, "send/name-after-transfer/delivered")
				})
			}
		}
	}
	total := 0
	for _, in := range s.m.inbox {
		total += len(in)
	}
	rc.Sample(map[string]interface{}{"steps": steps, "entries_in_model_at_end": total, "names": len(s.m.names), "trace_head": nfHead(rc.Trace(), 16)})
}

func spelling(used, canonical string) string {
	if used == canonical {
		return "canonical"
	}
	return "UPPER-CASE"
}

// c18PrefixExtension returns a valid account address (32 bytes) whose bech32 text has `addr` as a strict prefix.
func c18PrefixExtension(addr string) (string, bool) {
	const charset = "qpzry9x8gf2tvdw0s3jn54khce6mua7l"
	i := strings.LastIndex(addr, "1")
	if i < 0 {
		return "", false
	}
	var groups []byte
	for _, ch := range addr[i+1:] {
		v := strings.IndexRune(charset, ch)
		if v < 0 {
			return "", false
		}
		groups = append(groups, byte(v))
	}
	for len(groups)*5 < 256 {
		groups = append(groups, 0)
	}
	// 52 groups of 5 bits = 260 bits: the first 256 are the address, the last 4 (zero) are bech32 padding
	var bz []byte
	acc, nbits := 0, 0
	for _, g := range groups {
		acc = acc<<5 | int(g)
		nbits += 5
		for nbits >= 8 {
			nbits -= 8
			bz = append(bz, byte(acc>>nbits))
			acc &= (1 << nbits) - 1
		}
	}
	if len(bz) < 32 {
		return "", false
	}
	bz = bz[:32]
	out := sdk.AccAddress(bz).String()
	if !strings.HasPrefix(out, addr) || out == addr {
		return "", false
	}
	if _, err := sdk.AccAddressFromBech32(out); err != nil {
		return "", false
	}
	return out, true
}

func c18FirstDigit(v int64) int64 {
	for v >= 10 {
		v /= 10
	}
	return v
}
