package props

import (
	"encoding/json"
	"fmt"

	wasmvmtypes "github.com/CosmWasm/wasmvm/types"
	sdk "github.com/cosmos/cosmos-sdk/types"
	banktypes "github.com/cosmos/cosmos-sdk/x/bank/types"

	"jkverif/chain"

	"github.com/jackalLabs/canine-chain/v4/wasmbinding"
	"github.com/jackalLabs/canine-chain/v4/wasmbinding/bindings"
	storagetypes "github.com/jackalLabs/canine-chain/v4/x/storage/types"
)

// ---------------------------------------------------------------- (c) contract clause
//
// The wasm VM hands a contract's custom message to CustomMessenger.DispatchMsg
// together with the address of the calling contract. That call is reproduced
// here on the deliver-state context of an open block, inside a cache context
// that is written back only when the call succeeds (which is what the wasm
// keeper does with a failed contract execution). This is the one place where
// the harness calls application code directly: the caller of this function is
// the VM, not a transaction.

func runC11Contract(rc *RunCtx) {
	sp := storageParams(50, 100, 1024)
	c, err := chain.New(chain.Config{Seed: rc.Seed, NAcc: 4, Storage: sp})
	if err != nil {
		rc.Abort("init: " + err.Error())
		return
	}
	defer c.Close()
	if _, err := c.BeginBlock(dur(6)); err != nil {
		rc.Abort("BeginBlock: " + err.Error())
		return
	}
	// contract addresses look like wasm contract addresses (32 bytes) or classic 20-byte addresses
	mkAddr := func() sdk.AccAddress {
		n := 32
		if rc.Chance(0.3) {
			n = 20
		}
		return sdk.AccAddress(randBytes(rc.Rng, int64(n)))
	}
	contract := mkAddr()
	other := mkAddr()
	cb, otherB := contract.String(), other.String()
	user := 1 + rc.Intn(3)
	ub := c.Accs[user].Bech
	payer := 1 + (user % 3)

	// who gets a storage plan / funds (through real transactions)
	planFor := func(who string) bool {
		r := c.DeliverAs(payer, &storagetypes.MsgBuyStorage{Creator: c.Accs[payer].Bech, ForAddress: who, DurationDays: 90, Bytes: 3_000_000_000_000, PaymentDenom: "ujkl"})
		rc.Logf("setup BuyStorage for %s: code=%d %.100q", who, r.Code, r.Log)
		if !r.OK() {
			rc.Abort("setup BuyStorage: " + trunc(r.Log, 160))
		}
		return r.OK()
	}
	fund := func(to sdk.AccAddress) bool {
		r := c.DeliverAs(payer, banktypes.NewMsgSend(c.Accs[payer].Addr, to, sdk.NewCoins(sdk.NewInt64Coin("ujkl", 5_000_000_000_000))))
		if !r.OK() {
			rc.Abort("setup MsgSend: " + trunc(r.Log, 160))
		}
		return r.OK()
	}

	scen := rc.Intn(7)
	entry := rc.Intn(2) // 0 = CustomMessenger.DispatchMsg, 1 = PerformPostFile
	payOnce := false
	var creator string
	var scenName string
	wantReject := true
	switch scen {
	case 0: // a user with a valid plan is named as creator by a foreign contract
		scenName = "creator-is-user-with-plan"
		creator = ub
		if !planFor(ub) {
			return
		}
	case 1: // another contract with a plan is named
		scenName = "creator-is-other-contract-with-plan"
		creator = otherB
		if !planFor(otherB) {
			return
		}
	case 2: // a funded user, pay-once file
		scenName = "creator-is-funded-user-payonce"
		creator = ub
		payOnce = true
	case 3: // both the contract and the named creator have plans
		scenName = "both-have-plans"
		creator = ub
		if !planFor(ub) || !planFor(cb) {
			return
		}
	case 4: // own name, with plan
		scenName = "own-name-with-plan"
		creator = cb
		wantReject = false
		if !planFor(cb) {
			return
		}
	case 5: // own name, pay once
		scenName = "own-name-payonce"
		creator = cb
		wantReject = false
		payOnce = true
		if !fund(contract) {
			return
		}
	case 6: // own name but neither plan nor funds: message-level failure, nothing may persist
		scenName = "own-name-no-plan"
		creator = cb
		wantReject = false
	}
	if _, err := c.NextBlock(dur(6)); err != nil {
		rc.Abort("block: " + err.Error())
		return
	}
	merkle := randBytes(rc.Rng, 64)
	pf := &storagetypes.MsgPostFile{Creator: creator, Merkle: merkle, FileSize: int64(1 + rc.Intn(100000)), MaxProofs: int64(1 + rc.Intn(3)), Note: "{}"}
	if payOnce {
		pf.Expires = c.Height + 14400*int64(2+rc.Intn(30))
	}
	rc.Logf("scenario %s entry=%d contract=%s creator=%s msg=%s", scenName, entry, cb, creator, c11MsgString(pf))

	pre := c11Observe(c)
	ctx := c.Ctx()
	cctx, write := ctx.CacheContext()
	var callErr error
	func() {
		defer func() {
			if r := recover(); r != nil {
				callErr = fmt.Errorf("panic: %v", r)
			}
		}()
		if entry == 0 {
			bz, err := json.Marshal(bindings.JackalMsg{PostFile: pf})
			if err != nil {
				callErr = err
				return
			}
			m := wasmbinding.CustomMessageDecorator(&c.App.FileTreeKeeper, &c.App.StorageKeeper)(nil)
			_, _, callErr = m.DispatchMsg(cctx, contract, "", wasmvmtypes.CosmosMsg{Custom: bz})
		} else {
			callErr = wasmbinding.PerformPostFile(&c.App.StorageKeeper, cctx, contract, pf)
		}
	}()
	if callErr == nil {
		write() // the VM keeps the effects of a successful dispatch
	}
	post := c11Observe(c)
	rc.Eval(1)
	diff := c11KVDiff(pre, post)
	bd := chain.Diff(pre.bal, post.bal)
	rc.Logf("call returned err=%v; %d keys changed; balances %s", callErr, len(diff), bd)
	for _, ch := range diff {
		rc.Logf("    %s %q old=%dB new=%dB", ch.Store, ch.Key, len(ch.Old), len(ch.New))
	}
	ep := []string{"DispatchMsg", "PerformPostFile"}[entry]
	name := func(a string) string {
		switch a {
		case cb:
			return "contract(" + a + ")"
		case ub:
			return "user(" + a + ")"
		case otherB:
			return "other-contract(" + a + ")"
		}
		return a
	}
	// files as the module's own query reports them
	var fr storagetypes.QueryAllFilesResponse
	if err := c.GRPC("/canine_chain.storage.Query/AllFiles", &storagetypes.QueryAllFiles{Pagination: pg()}, &fr); err != nil {
		rc.Abort("AllFiles query: " + err.Error())
		return
	}
	for _, f := range fr.Files {
		if f.Owner != cb {
			rc.Fail("C11/contract/file-in-foreign-name", "after %s by contract %s a file owned by %s exists (merkle %x)", ep, cb, name(f.Owner), f.Merkle)
		}
	}
	outcome := ""
	if wantReject {
		if callErr == nil {
			rc.Fail("C11/contract/foreign-creator-accepted", "%s with contract %s and PostFile.Creator %s returned no error", ep, cb, name(creator))
		}
		if len(diff) > 0 {
			rc.Fail("C11/contract/foreign-creator-changed-state", "%s with contract %s and PostFile.Creator %s changed %d store keys, first %s %q", ep, cb, name(creator), len(diff), diff[0].Store, diff[0].Key)
		}
		if len(bd) > 0 {
			rc.Fail("C11/contract/foreign-creator-moved-funds", "%s with contract %s and PostFile.Creator %s changed balances: %s", ep, cb, name(creator), bd)
		}
		outcome = "rejected"
	} else {
		// every file / plan record that changed must be the contract's own; gauges created by a pay-once post are nobody's record
		for _, ch := range diff {
			owners, known := c11Owners(c, ch)
			if !known {
				if payOnce && ch.Store == storagetypes.StoreKey {
					continue
				}
				rc.Fail("C11/contract/touched-unowned-record/"+c11KeyClass(ch), "%s in the contract's own name changed %s %q", ep, ch.Store, ch.Key)
				continue
			}
			for _, o := range owners {
				if o != cb {
					rc.Fail("C11/contract/foreign-record-changed/"+c11KeyClass(ch), "%s in the contract's own name changed %s %q which belongs to %s", ep, ch.Store, ch.Key, name(o))
				}
			}
		}
		for a := range bd {
			if a == ub || a == otherB {
				rc.Fail("C11/contract/foreign-balance-changed", "%s in the contract's own name changed the balance of %s", ep, name(a))
			}
		}
		if callErr != nil {
			if len(diff) > 0 || len(bd) > 0 {
				rc.Fail("C11/contract/failed-dispatch-persisted", "%s failed (%v) yet %d keys / %d balances changed", ep, callErr, len(diff), len(bd))
			}
			if scen != 6 {
				rc.Abort(fmt.Sprintf("post in the contract's own name (%s) failed: %v", scenName, callErr))
				return
			}
			outcome = "own-name-failed-nothing-persisted"
		} else {
			found := false
			for _, f := range fr.Files {
				if f.Owner == cb && string(f.Merkle) == string(merkle) {
					found = true
				}
			}
			if !found {
				rc.Fail("C11/contract/own-file-missing", "%s in the contract's own name returned no error but no file owned by the contract exists", ep)
			}
			outcome = "own-name-file-created"
		}
	}
	rc.NonTrivial(fmt.Sprintf("contract/%s/%s/%s", ep, scenName, outcome))
	if err := c.EndAndCommit(); err != nil {
		rc.Abort("EndBlock/Commit after dispatch: " + err.Error())
		return
	}
	if _, err := c.BeginBlock(dur(6)); err != nil {
		rc.Abort("BeginBlock after dispatch: " + err.Error())
		return
	}
	rc.Sample(map[string]interface{}{"family": "contract", "entry": ep, "scenario": scenName, "error": fmt.Sprint(callErr), "keys_changed": len(diff), "outcome": outcome})
}
