package props

import (
	"fmt"
	"math/big"
	"sort"
	"strings"
	"time"

	sdk "github.com/cosmos/cosmos-sdk/types"

	"jkverif/chain"

	storagekeeper "github.com/jackalLabs/canine-chain/v4/x/storage/keeper"
	storagetypes "github.com/jackalLabs/canine-chain/v4/x/storage/types"
)

// StepBlock closes the open block (if any), snapshots storage state and all
// balances, runs BeginBlock of the next block with the reward-summary hook
// armed, and snapshots again.
func (s *SW) StepBlock(dt time.Duration) (*RewardObs, error) {
	c := s.c
	if c.InBlock {
		if err := c.EndAndCommit(); err != nil {
			return nil, err
		}
	}
	ro := &RewardObs{GaugeOut: map[string]sdk.Coins{}, Paid: map[string]sdk.Coins{}}
	var err error
	if ro.Pre, err = s.Observe(); err != nil {
		return nil, fmt.Errorf("observe: %w", err)
	}
	ro.PreBal = c.Snapshot()
	storagekeeper.VerifRewardSink = func(h int64, total int64, counted map[string]int64) {
		ro.HookSeen = true
		ro.Counted = counted
		ro.TotalSize = total
	}
	evs, perr := c.BeginBlock(dt)
	storagekeeper.VerifRewardSink = nil
	if perr != nil {
		return nil, perr
	}
	ro.Events = evs
	ro.Height = c.Height
	if ro.Post, err = s.Observe(); err != nil {
		return nil, fmt.Errorf("observe: %w", err)
	}
	ro.PostBal = c.Snapshot()
	s.paging()
	cw := c.App.StorageKeeper.GetParams(c.Ctx()).CheckWindow
	ro.IsReward = cw > 0 && c.Height%cw == 0
	mod := storageModAddr()
	ga := gaugeAddrs(ro.Pre)
	for _, t := range chain.Transfers(evs) {
		if _, ok := ga[t.From]; ok && t.To == mod {
			ro.Released = ro.Released.Add(t.Coins...)
			ro.GaugeOut[t.From] = ro.GaugeOut[t.From].Add(t.Coins...)
		}
		if t.From == mod {
			ro.Paid[t.To] = ro.Paid[t.To].Add(t.Coins...)
		}
	}
	return ro, nil
}

type rewardExpect struct {
	Counted  map[string]*big.Int // prover -> bytes
	Removed  map[string]bool     // proof key
	BurnDiff map[string]int64
	Dpre     *big.Int
	// description of the situation for the non-trivial signature
	FailPattern []string
}

// expectReward computes, from the pre-state read through queries, what the
// statement of C03 requires of the reward block at height h.
// netWindows maps file key -> the network's ProofWindow when the file was posted (the file's proof window by the
// statement, whatever interval the client asked for in MsgPostFile); files unknown to the map use their record.
var netWindows map[string]int64

func expectReward(pre *StorageObs, h int64) (*rewardExpect, []string) {
	ex := &rewardExpect{Counted: map[string]*big.Int{}, Removed: map[string]bool{}, BurnDiff: map[string]int64{}, Dpre: new(big.Int)}
	var incons []string
	for _, f := range pre.Files {
		W := f.ProofInterval
		if nw, ok := netWindows[fileKey(f)]; ok && nw > 0 {
			W = nw
		}
		ex.Dpre.Add(ex.Dpre, new(big.Int).Mul(big.NewInt(f.FileSize), big.NewInt(int64(len(f.Proofs)))))
		pat := ""
		for _, pk := range f.Proofs {
			p, ok := pre.Proofs[pk]
			if !ok {
				incons = append(incons, fmt.Sprintf("file %s lists %s without a proof record", fileKey(f), pk))
				pat += "?"
				continue
			}
			met := true
			if W > 0 && h > f.Start+W {
				k := (h - f.Start) / W
				met = p.LastProven >= f.Start+(k-1)*W
			}
			if met {
				if ex.Counted[p.Prover] == nil {
					ex.Counted[p.Prover] = new(big.Int)
				}
				ex.Counted[p.Prover].Add(ex.Counted[p.Prover], big.NewInt(f.FileSize))
				pat += "1"
			} else {
				ex.Removed[pk] = true
				if _, isProv := pre.Providers[p.Prover]; isProv {
					ex.BurnDiff[p.Prover]++
				}
				pat += "0"
			}
		}
		if len(f.Proofs) > 0 {
			ex.FailPattern = append(ex.FailPattern, pat)
		}
	}
	return ex, incons
}

// checkRewardC03 is the C03 oracle for one reward block.
func checkRewardC03(rc *RunCtx, ro *RewardObs) (nontrivial string) {
	P := "C03/"
	h := ro.Height
	ex, incons := expectReward(ro.Pre, h)
	rc.Eval(1)
	if len(incons) > 0 {
		rc.Count("c03_inconsistent_prestate", 1)
		return ""
	}
	if !ro.HookSeen {
		rc.Fail(P+"hook-not-reached", "reward height %d but the reward summary hook did not fire", h)
		return ""
	}
	// 1. counted exactly once
	for p, v := range ex.Counted {
		got := ro.Counted[p]
		if big.NewInt(got).Cmp(v) != 0 {
			rc.Fail(P+"counted-bytes", "h=%d: prover %s counted for %d bytes, obligation-met files total %s bytes (patterns %v)", h, p, got, v, ex.FailPattern)
		}
	}
	for p, got := range ro.Counted {
		if _, ok := ex.Counted[p]; !ok && got != 0 {
			rc.Fail(P+"counted-unexpected", "h=%d: prover %s counted for %d bytes but met no obligation", h, p, got)
		}
	}
	// 2. removal and burn
	for _, f := range ro.Pre.Files {
		pf := ro.Post.File(fileKey(f))
		var want []string
		for _, pk := range f.Proofs {
			if !ex.Removed[pk] {
				want = append(want, pk)
			}
		}
		if pf == nil {
			// the chain may drop a file once nobody stores it any more (also in the very block that removes its last
			// provers); dropping a file that still has a prover which met its obligation removes that prover wrongly
			if len(want) > 0 {
				rc.Fail(P+"file-with-provers-deleted", "h=%d: file %s was deleted by the reward block although provers %v met their obligation (listed before: %v)", h, fileKey(f), short(want), short(f.Proofs))
			}
			for _, pk := range f.Proofs {
				if _, still := ro.Post.Proofs[pk]; still {
					rc.Fail(P+"removed-proof-record-left", "h=%d: proof record %s still present after its file was dropped", h, pk)
				}
			}
			continue
		}
		if strings.Join(pf.Proofs, "|") != strings.Join(want, "|") {
			rc.Fail(P+"prover-list-after", "h=%d: file %s prover list after reward block %v, expected %v (before %v)", h, fileKey(f), short(pf.Proofs), short(want), short(f.Proofs))
		}
		for _, pk := range f.Proofs {
			_, still := ro.Post.Proofs[pk]
			if ex.Removed[pk] && still {
				rc.Fail(P+"removed-proof-record-left", "h=%d: proof record %s still present after its prover was removed", h, pk)
			}
			if !ex.Removed[pk] && !still {
				rc.Fail(P+"kept-proof-record-lost", "h=%d: proof record %s of a prover that met its obligation disappeared", h, pk)
			}
		}
	}
	for a, p := range ro.Pre.Providers {
		q, ok := ro.Post.Providers[a]
		if !ok {
			rc.Fail(P+"provider-vanished", "h=%d: provider %s vanished in BeginBlock", h, a)
			continue
		}
		if d := burned(q) - burned(p); d != ex.BurnDiff[a] {
			rc.Fail(P+"burn-count", "h=%d: provider %s burn counter moved by %d, missed files %d", h, a, d, ex.BurnDiff[a])
		}
	}
	// 3. payments
	Dcnt := new(big.Int)
	for _, v := range ex.Counted {
		Dcnt.Add(Dcnt, v)
	}
	for acct, coins := range ro.Paid {
		if _, ok := ex.Counted[acct]; !ok && !coins.IsZero() {
			rc.Fail(P+"paid-uncounted", "h=%d: %s received %s from the storage module but was not counted", h, acct, coins)
		}
	}
	for _, rel := range ro.Released {
		d := rel.Denom
		R := rel.Amount.BigInt()
		sum := new(big.Int)
		for _, coins := range ro.Paid {
			sum.Add(sum, coins.AmountOf(d).BigInt())
		}
		if sum.Cmp(R) > 0 {
			rc.Fail(P+"paid-more-than-released", "h=%d: paid %s%s > released %s%s", h, sum, d, R, d)
		}
		okD := false
		var why string
		for _, D := range []*big.Int{ex.Dpre, Dcnt} {
			if D.Sign() <= 0 {
				continue
			}
			all := true
			for p, c := range ex.Counted {
				want := new(big.Int).Div(new(big.Int).Mul(c, R), D)
				got := ro.Paid[p].AmountOf(d).BigInt()
				diff := new(big.Int).Sub(got, want)
				if diff.CmpAbs(big.NewInt(1)) > 0 {
					all = false
					why = fmt.Sprintf("prover %s counted %s bytes received %s%s, size-weighted share of %s is %s (denominator %s)", p, c, got, d, R, want, D)
					break
				}
			}
			if all {
				okD = true
				break
			}
		}
		if !okD && len(ex.Counted) > 0 {
			rc.Fail(P+"share-amount", "h=%d: %s", h, why)
		}
	}
	for d, coins := range ro.Paid {
		for _, cn := range coins {
			if ro.Released.AmountOf(cn.Denom).IsZero() && !cn.IsZero() {
				rc.Fail(P+"paid-without-release", "h=%d: %s paid %s with nothing released in that denom", h, d, cn)
			}
		}
	}
	// snapshot cross-check of payouts
	df := chain.Diff(ro.PreBal, ro.PostBal)
	for p := range ex.Counted {
		for _, rel := range ro.Released {
			if !df.Of(p, rel.Denom).Equal(ro.Paid[p].AmountOf(rel.Denom)) {
				rc.Count("c03_snapshot_eventlog_mismatch", 1)
			}
		}
	}
	// non-trivial: >=1 failing prover at a non-last position, >=1 counted prover, R>0
	if !ro.Released.IsZero() && len(ex.Counted) > 0 {
		sort.Strings(ex.FailPattern)
		for _, pat := range ex.FailPattern {
			if i := strings.Index(pat, "0"); i >= 0 && i < len(pat)-1 {
				return "fail-nonlast/" + strings.Join(ex.FailPattern, ",")
			}
		}
		if strings.Contains(strings.Join(ex.FailPattern, ""), "0") {
			return "fail-last/" + strings.Join(ex.FailPattern, ",")
		}
		return "allmet/" + strings.Join(ex.FailPattern, ",")
	}
	return ""
}

func short(xs []string) []string {
	out := make([]string, len(xs))
	for i, x := range xs {
		a := proverOfKey(x)
		if len(a) > 8 {
			a = a[len(a)-6:]
		}
		out[i] = a
	}
	return out
}

// ---------------------------------------------------------------- gauges (C12)

type trackedGauge struct {
	ID       string
	Addr     string
	Start    time.Time
	End      time.Time
	Deposit  sdk.Coins // everything that ever entered the escrow account
	TopUp    sdk.Coins // the part of Deposit that arrived after the transaction that created the gauge (third-party transfers)
	Recorded sdk.Coins
	CumRel   sdk.Coins
	Rewards  int // reward blocks seen inside [start,end]
	Gone     bool
}

type gaugeTracker struct {
	g map[string]*trackedGauge
}

func newGaugeTracker() *gaugeTracker { return &gaugeTracker{g: map[string]*trackedGauge{}} }

// AfterTx learns new gauges and deposits from the state after a transaction.
func (gt *gaugeTracker) AfterTx(rc *RunCtx, s *SW, pre, post chain.Balances) {
	gt.afterTx(rc, s, pre, post, false)
}

// AfterTopUp is AfterTx for a transaction the workload itself sent as a third-party transfer into an escrow account:
// what enters existing escrows is booked as a top-up (what a purchase pays into an escrow is never a top-up, even if
// the escrow already existed - that would be two purchases sharing one gauge).
func (gt *gaugeTracker) AfterTopUp(rc *RunCtx, s *SW, pre, post chain.Balances) {
	gt.afterTx(rc, s, pre, post, true)
}

func (gt *gaugeTracker) afterTx(rc *RunCtx, s *SW, pre, post chain.Balances, topUp bool) {
	var gr storagetypes.QueryAllGaugesResponse
	if err := s.q("Gauges", &storagetypes.QueryAllGauges{Pagination: pg()}, &gr); err != nil {
		return
	}
	df := chain.Diff(pre, post)
	for _, g := range gr.Gauges {
		a, err := storagetypes.GetGaugeAccount(g)
		if err != nil {
			continue
		}
		ad := a.String()
		t := gt.g[ad]
		isNew := t == nil
		if isNew {
			t = &trackedGauge{ID: fmt.Sprintf("%x", g.Id), Addr: ad, Start: g.Start, End: g.End, Recorded: g.Coins}
			gt.g[ad] = t
		}
		for dn, v := range df[ad] {
			if v.IsPositive() {
				t.Deposit = t.Deposit.Add(sdk.NewCoin(dn, v))
				if !isNew && topUp {
					t.TopUp = t.TopUp.Add(sdk.NewCoin(dn, v))
				}
			}
		}
	}
}

// CheckBlock is the C12 oracle for one BeginBlock.
func (gt *gaugeTracker) CheckBlock(rc *RunCtx, ro *RewardObs, now time.Time) {
	P := "C12/"
	df := chain.Diff(ro.PreBal, ro.PostBal)
	for ad, t := range gt.g {
		rc.Eval(1)
		moved := df[ad]
		inside := !now.Before(t.Start) && !now.After(t.End)
		if !ro.IsReward || !inside {
			for dn, v := range moved {
				where := "a non-reward block"
				if ro.IsReward {
					where = "a reward block outside the gauge's start-end interval"
				}
				rc.Fail(P+"moved-outside", "h=%d: gauge %s escrow moved by %s%s in %s (start %s end %s now %s)", ro.Height, t.ID[:8], v, dn, where, t.Start.Format(time.RFC3339Nano), t.End.Format(time.RFC3339Nano), now.Format(time.RFC3339Nano))
			}
			continue
		}
		t.Rewards++
		total := t.End.Sub(t.Start).Microseconds()
		el := now.Sub(t.Start).Microseconds()
		// block times have nanosecond resolution. "Elapsed, in whole microseconds" then has two readings that differ by one
		// microsecond: whole microseconds elapsed (rounded down) and duration minus whole microseconds left (the chain's
		// arithmetic, i.e. rounded up). Both are accepted: the release must lie between the two pro-rata values, +-1.
		elHi := (now.Sub(t.Start).Nanoseconds() + 999) / 1000
		if elHi > total {
			elHi = total
		}
		for _, dep := range t.Deposit {
			dn := dep.Denom
			rel := sdk.ZeroInt()
			if m, ok := moved[dn]; ok {
				rel = m.Neg()
			}
			if rel.IsNegative() {
				rc.Fail(P+"escrow-grew", "h=%d: gauge %s escrow grew by %s%s in BeginBlock", ro.Height, t.ID[:8], rel.Neg(), dn)
				continue
			}
			if !rel.Equal(ro.GaugeOut[ad].AmountOf(dn)) {
				rc.Count("c12_snapshot_eventlog_mismatch", 1)
			}
			t.CumRel = t.CumRel.Add(sdk.NewCoin(dn, rel))
			cum := t.CumRel.AmountOf(dn)
			if cum.GT(dep.Amount) {
				rc.Fail(P+"released-more-than-deposit", "h=%d: gauge %s released %s%s in total, deposit %s", ro.Height, t.ID[:8], cum, dn, dep.Amount)
			}
			if top := t.TopUp.AmountOf(dn); total > 0 && top.IsPositive() {
				// somebody transferred tokens into the escrow after the gauge was created. The statement fixes the stream of
				// "the amount deposited for it" (the purchase): that part must keep streaming at least pro rata; when the
				// extra tokens leave (at once, or streamed) is not fixed, only that the total never exceeds what entered.
				base := dep.Amount.Sub(top)
				want := new(big.Int).Div(new(big.Int).Mul(base.BigInt(), big.NewInt(el)), big.NewInt(total))
				if new(big.Int).Sub(want, cum.BigInt()).Cmp(big.NewInt(1)) > 0 {
					rc.Fail(P+"not-linear/stream-behind-after-top-up", "h=%d: gauge %s cumulative release %s%s is behind the pro-rata floor(%s*%dus/%dus)=%s of its own deposit (a further %s%s was transferred into the escrow later)", ro.Height, t.ID[:8], cum, dn, base, el, total, want, top, dn)
				}
			} else if total > 0 {
				want := new(big.Int).Div(new(big.Int).Mul(dep.Amount.BigInt(), big.NewInt(el)), big.NewInt(total))
				wantHi := new(big.Int).Div(new(big.Int).Mul(dep.Amount.BigInt(), big.NewInt(elHi)), big.NewInt(total))
				below := new(big.Int).Sub(want, cum.BigInt()).Cmp(big.NewInt(1)) > 0
				above := new(big.Int).Sub(cum.BigInt(), wantHi).Cmp(big.NewInt(1)) > 0
				if below || above {
					rc.Fail(P+"not-linear", "h=%d: gauge %s cumulative release %s%s, pro-rata floor(%s*%dus/%dus)=%s (recorded coins %s, deposited %s)", ro.Height, t.ID[:8], cum, dn, dep.Amount, el, total, want, t.Recorded, t.Deposit)
				}
			}
		}
	}
}
