package props

import (
	"fmt"
	"time"

	sdk "github.com/cosmos/cosmos-sdk/types"
	authtypes "github.com/cosmos/cosmos-sdk/x/auth/types"
	distrtypes "github.com/cosmos/cosmos-sdk/x/distribution/types"

	"jkverif/chain"

	mintkeeper "github.com/jackalLabs/canine-chain/v4/x/jklmint/keeper"
	minttypes "github.com/jackalLabs/canine-chain/v4/x/jklmint/types"
)

// C13 – block emission is non-increasing, non-negative and fully distributed.
//
// Monitor: per block, from the BeginBlock bank event log and full balance /
// supply snapshots taken immediately before and after BeginBlock.

func init() {
	Register(&Prop{
		ID:    "C13",
		Title: "Block emission is non-increasing, non-negative and fully distributed",
		Cases: func(t string) int { return tierN(t, 96, 3000) },
		Run:   runC13,
		Rule: "case = one jklmint parameter set (TokensPerBlock x MintDecrease x ratio triple with sum<=100 x mint denom, drawn from a boundary grid by the PRNG) run for 40..400 (thorough: ..2000) consecutive blocks, optionally with one governance parameter change mid-run and (30% of the cases) one export -> restart from the exported genesis in the middle of the run; " +
			"every block is one oracle evaluation (supply delta = coinbase = MintedTokens query, 0<=E_h<=E_{h-1}, exact floor split to fee collector / dev grants / stipend, module remainder, no other account credited); " +
			"non-trivial signature = (TokensPerBlock class, MintDecrease class, ratio-sum class, denom, emission reached zero?, emission changed during run?, gov change?)",
		Assumptions: []string{
			"stipend address is a valid, non-module account (the property quantifies over numeric parameters)",
			"no transactions other than governance proposals are delivered, so every supply change in BeginBlock is attributable to jklmint",
		},
		MinNonTriv: 12,
	})
}

func classifyMag(v int64) string {
	switch {
	case v == 0:
		return "0"
	case v < 10:
		return "<10"
	case v < 1000:
		return "<1e3"
	case v < 5_256_000:
		return "<bpy"
	case v == 5_256_000:
		return "=bpy"
	case v < 100_000_000:
		return "<1e8"
	default:
		return ">=1e8"
	}
}

func runC13(rc *RunCtx) {
	tokens := []int64{0, 1, 2, 3, 7, 100, 4_200_000, 1_000_000_000_000, 300_000_000_000_000_000, 9_000_000_000_000_000_000}
	decr := []int64{0, 6, 5_255_999, 5_256_000, 5_256_001, 10_512_000, 100_000_000, 9_223_372_036_854_775_807, 9_223_372_036_850_000_000, 4_611_686_018_427_387_904} // the last three: the validator only demands >= 0
	type triple struct{ s, d, p int64 }
	triples := []triple{{80, 8, 12}, {100, 0, 0}, {0, 0, 0}, {0, 100, 0}, {0, 0, 100}, {33, 33, 33}, {1, 1, 1}, {50, 25, 25}, {10, 0, 45}}
	var tr triple
	if rc.Chance(0.3) {
		s := int64(rc.Intn(101))
		d := int64(rc.Intn(int(101 - s)))
		p := int64(rc.Intn(int(101 - s - d)))
		tr = triple{s, d, p}
	} else {
		tr = triples[rc.Intn(len(triples))]
	}
	tpb := rc.Pick(tokens)
	if rc.Chance(0.2) {
		tpb = int64(rc.Intn(2000))
	}
	dec := rc.Pick(decr)
	denom := "ujkl"
	if rc.Chance(0.15) {
		denom = "uother"
	}
	stipend := sdk.AccAddress([]byte("stipend-account-xyz!")).String()
	if rc.Chance(0.2) {
		stipend = minttypes.DefaultStorageStipend
	}
	mp := minttypes.NewParams(denom, tr.d, tpb, tr.s, dec, stipend, tr.p)
	blocks := 40 + rc.Intn(360)
	if rc.Tier == "thorough" && rc.Chance(0.2) {
		blocks = 400 + rc.Intn(1600)
	}
	gov := rc.Chance(0.25)
	// anchored by case number (a seeded change needed exactly this and the random draws reached it by luck only): a running,
	// slowly decreasing emission with a non-zero stipend share whose receiving address governance then changes
	stipendMove := rc.Case%16 == 5
	if stipendMove {
		gov = true
		if tr.p == 0 || tr.s+tr.d+tr.p > 100 {
			tr = triple{50, 25, 25}
		}
		if tpb < 100 {
			tpb = 4_200_000
		}
		if dec > 100_000_000 {
			dec = 6
		}
		mp = minttypes.NewParams(denom, tr.d, tpb, tr.s, dec, stipend, tr.p)
	}
	cfg := chain.Config{Seed: rc.Seed, NAcc: 2, Mint: &mp}
	if gov {
		cfg.GovVotingSeconds = 10
	}
	rc.Logf("params tokensPerBlock=%d mintDecrease=%d ratios(staker,dev,prov)=(%d,%d,%d) denom=%s blocks=%d gov=%v", tpb, dec, tr.s, tr.d, tr.p, denom, blocks, gov)
	c, err := chain.New(cfg)
	if err != nil {
		rc.Abort("init: " + err.Error())
		return
	}
	defer c.Close()

	mintMod := chain.ModuleAddr(minttypes.ModuleName).String()
	feeCol := chain.ModuleAddr(authtypes.FeeCollectorName).String()
	distr := chain.ModuleAddr(distrtypes.ModuleName).String()
	devAddr, _ := mintkeeper.GetDevGrantsAccount()
	dev := devAddr.String()

	prevE := sdk.NewInt(-1)
	reachedZero, changed := false, false
	firstE := sdk.NewInt(-1)
	cur := mp
	govAt := -1
	if gov {
		govAt = 5 + rc.Intn(blocks/2)
	}
	govDone := false
	var sample []string

	restartAt := -1
	if rc.Chance(0.3) {
		restartAt = 3 + rc.Intn(blocks-3)
	}
	restarted := false
	for b := 0; b < blocks; b++ {
		if c.InBlock {
			if err := c.EndAndCommit(); err != nil {
				rc.Fail("C13/panic-endblock", "%v", err)
				return
			}
		}
		if b == restartAt {
			// the chain is exported and restarted from its genesis file: the run of consecutive blocks continues
			exp, err := c.Export()
			if err != nil {
				rc.Abort("export: " + err.Error())
				return
			}
			c2, err := chain.NewFromExport(c, exp)
			if err != nil {
				if pe, ok := err.(*chain.PanicError); ok {
					rc.Fail("C13/restart-panic", "InitChain on the exported state: %v", pe)
				} else {
					rc.Abort("restart: " + err.Error())
				}
				return
			}
			defer c2.Close()
			c = c2
			restarted = true
			rc.Logf("exported at h=%d and restarted from the genesis file", c.Height)
		}
		pre := c.Snapshot()
		preSup := c.Supply()
		evs, err := c.BeginBlock(6 * time.Second)
		if err != nil {
			rc.Fail("C13/beginblock-panic", "block %d (prev emission %s, params %+v): %v", c.Height, prevE, cur, err)
			return
		}
		post := c.Snapshot()
		postSup := c.Supply()
		rc.Eval(1)
		cur = c.App.MintKeeper.GetParams(c.Ctx())
		d := cur.MintDenom
		if d == "" {
			d = "ujkl"
		}
		// emission from the event log
		cb := chain.Coinbase(evs)
		E := cb[mintMod].AmountOf(d)
		for m, coins := range cb {
			if m != mintMod && !coins.IsZero() {
				rc.Fail("C13/foreign-mint", "block %d: %s minted %s in BeginBlock", c.Height, m, coins)
			}
		}
		for _, cn := range cb[mintMod] {
			if cn.Denom != d && !cn.Amount.IsZero() {
				rc.Fail("C13/wrong-denom-minted", "block %d: minted %s, mint denom %s", c.Height, cn, d)
			}
		}
		// supply delta
		for _, dn := range unionDenoms(preSup, postSup) {
			ds := postSup.AmountOf(dn).Sub(preSup.AmountOf(dn))
			want := sdk.ZeroInt()
			if dn == d {
				want = E
			}
			if !ds.Equal(want) {
				rc.Fail("C13/supply-delta", "block %d: supply of %s moved by %s, emission (coinbase) %s", c.Height, dn, ds, want)
			}
		}
		// MintedTokens query
		var q minttypes.QueryMintedTokensResponse
		if err := c.GRPC("/canine_chain.jklmint.Query/MintedTokens", &minttypes.QueryMintedTokens{Block: c.Height}, &q); err != nil {
			rc.Abort("query MintedTokens: " + err.Error())
			return
		}
		if !sdk.NewInt(q.Tokens).Equal(E) {
			rc.Fail("C13/minted-record", "block %d: MintedTokens query says %d, coinbase/supply says %s", c.Height, q.Tokens, E)
		}
		if E.IsNegative() {
			rc.Fail("C13/negative-emission", "block %d: emission %s", c.Height, E)
		}
		if !prevE.IsNegative() && E.GT(prevE) {
			rc.Fail("C13/emission-increased", "block %d: emission %s > previous %s (params %+v)", c.Height, E, prevE, cur)
		}
		if firstE.IsNegative() {
			firstE = E
		} else if !E.Equal(firstE) {
			changed = true
		}
		if E.IsZero() {
			reachedZero = true
		}
		// split, from transfer events out of the mint module
		out := map[string]sdk.Int{}
		for _, t := range chain.Transfers(evs) {
			if t.From != mintMod {
				continue
			}
			for _, cn := range t.Coins {
				if cn.Denom != d {
					rc.Fail("C13/wrong-denom-sent", "block %d: mint module sent %s", c.Height, cn)
				}
			}
			if _, ok := out[t.To]; !ok {
				out[t.To] = sdk.ZeroInt()
			}
			out[t.To] = out[t.To].Add(t.Coins.AmountOf(d))
		}
		want := map[string]sdk.Int{}
		add := func(a string, v sdk.Int) {
			if _, ok := want[a]; !ok {
				want[a] = sdk.ZeroInt()
			}
			want[a] = want[a].Add(v)
		}
		add(feeCol, E.MulRaw(cur.StakerRatio).QuoRaw(100))
		add(dev, E.MulRaw(cur.DevGrantsRatio).QuoRaw(100))
		add(cur.StorageStipendAddress, E.MulRaw(cur.StorageProviderRatio).QuoRaw(100))
		total := sdk.ZeroInt()
		for a, v := range out {
			w, ok := want[a]
			if !ok {
				if !v.IsZero() {
					rc.Fail("C13/other-account-credited", "block %d: mint module sent %s%s to %s which is none of fee collector / dev grants / stipend", c.Height, v, d, a)
				}
				continue
			}
			if !v.Equal(w) {
				rc.Fail("C13/split-amount", "block %d: %s received %s, expected floor share %s of emission %s (ratios %d/%d/%d)", c.Height, role(a, feeCol, dev, cur.StorageStipendAddress), v, w, E, cur.StakerRatio, cur.DevGrantsRatio, cur.StorageProviderRatio)
			}
			total = total.Add(v)
		}
		for a, w := range want {
			if _, ok := out[a]; !ok && !w.IsZero() {
				rc.Fail("C13/split-missing", "block %d: %s received nothing, expected %s of emission %s", c.Height, role(a, feeCol, dev, cur.StorageStipendAddress), w, E)
			}
		}
		// snapshot cross-check: module remainder and no other account credited
		df := chain.Diff(pre, post)
		rem := df.Of(mintMod, d)
		if !rem.Equal(E.Sub(total)) {
			rc.Fail("C13/module-remainder", "block %d: mint module balance moved by %s, emission %s minus event-log payouts %s = %s", c.Height, rem, E, total, E.Sub(total))
		}
		if cur.StakerRatio+cur.DevGrantsRatio+cur.StorageProviderRatio == 100 && (rem.IsNegative() || rem.GTE(sdk.NewInt(3))) {
			rc.Fail("C13/remainder-bound", "block %d: mint module kept %s (ratios sum to 100; must be 0..2)", c.Height, rem)
		}
		if rem.IsNegative() {
			rc.Fail("C13/module-overdrawn", "block %d: mint module balance fell by %s", c.Height, rem.Neg())
		}
		// snapshot deltas must match the event log per recipient; fee collector is swept into distribution in the same BeginBlock
		fcPlusDistr := df.Of(feeCol, d).Add(df.Of(distr, d))
		wantFc := want[feeCol]
		if !fcPlusDistr.Equal(wantFc) {
			rc.Fail("C13/staker-share-snapshot", "block %d: fee collector + distribution moved by %s, expected staker share %s", c.Height, fcPlusDistr, wantFc)
		}
		for _, a := range df.Accounts() {
			if a == mintMod || a == feeCol || a == distr {
				continue
			}
			for dn, v := range df[a] {
				w, ok := want[a]
				if dn == d && ok {
					if !v.Equal(w) {
						rc.Fail("C13/snapshot-vs-eventlog", "block %d: %s balance moved by %s, event log says %s", c.Height, a, v, w)
					}
					continue
				}
				rc.Fail("C13/other-account-changed", "block %d: account %s changed by %s%s during BeginBlock", c.Height, a, v, dn)
			}
		}
		if len(sample) < 12 {
			sample = append(sample, fmt.Sprintf("h=%d E=%s fee=%s dev=%s stipend=%s kept=%s", c.Height, E, out[feeCol], out[dev], out[cur.StorageStipendAddress], rem))
		}
		prevE = E

		if gov && !govDone && b >= govAt {
			govDone = true
			// one governance change that keeps the ratio sum <= 100
			var err error
			kind := rc.Intn(7)
			if stipendMove {
				kind = 4
			}
			switch kind {
			case 6:
				// TokensPerBlock lowered below the running emission (and, in other cases, raised again by case 3)
				nt := prevE.QuoRaw(2).Int64()
				if nt < 1 {
					nt = 1
				}
				rc.Logf("gov: TokensPerBlock -> %d (half the running emission) at h=%d", nt, c.Height)
				err = c.ParamChange("jklmint", "TokensPerBlock", fmt.Sprintf(`"%d"`, nt))
			case 5:
				nd := rc.PickS([]string{"uother", "ujkl", "unew"})
				rc.Logf("gov: MintDenom -> %s at h=%d", nd, c.Height)
				err = c.ParamChange("jklmint", "MintDenom", fmt.Sprintf(`"%s"`, nd))
			case 4:
				na := c.Accs[rc.Intn(len(c.Accs))].Bech
				rc.Logf("gov: StorageStipend -> %s at h=%d", na, c.Height)
				err = c.ParamChange("jklmint", "StorageStipend", fmt.Sprintf(`"%s"`, na))
			case 0:
				nd := rc.Pick(decr)
				rc.Logf("gov: MintDecrease -> %d at h=%d", nd, c.Height)
				err = c.ParamChange("jklmint", "MintIncrease", fmt.Sprintf(`"%d"`, nd))
			case 1:
				ns := int64(0)
				if cur.StakerRatio > 0 {
					ns = int64(rc.Intn(int(cur.StakerRatio)))
				}
				rc.Logf("gov: StakerRatio -> %d at h=%d", ns, c.Height)
				err = c.ParamChange("jklmint", "StakerRatio", fmt.Sprintf(`"%d"`, ns))
			case 2:
				room := 100 - cur.StakerRatio - cur.DevGrantsRatio - cur.StorageProviderRatio
				np := cur.StorageProviderRatio + int64(rc.Intn(int(room+1)))
				rc.Logf("gov: ProviderRatio -> %d at h=%d", np, c.Height)
				err = c.ParamChange("jklmint", "ProviderRatio", fmt.Sprintf(`"%d"`, np))
			case 3:
				nt := rc.Pick(tokens)
				rc.Logf("gov: TokensPerBlock -> %d at h=%d", nt, c.Height)
				err = c.ParamChange("jklmint", "TokensPerBlock", fmt.Sprintf(`"%d"`, nt))
			}
			if err != nil {
				if pe, ok := err.(*chain.PanicError); ok {
					rc.Fail("C13/beginblock-panic", "during governance blocks: %v", pe)
					return
				}
				rc.Abort("gov: " + err.Error())
				return
			}
			// blocks executed inside ParamChange were not monitored one by one: restart the monotonic baseline from the record
			var q minttypes.QueryMintedTokensResponse
			if err := c.GRPC("/canine_chain.jklmint.Query/MintedTokens", &minttypes.QueryMintedTokens{Block: c.Height}, &q); err == nil {
				if sdk.NewInt(q.Tokens).GT(prevE) {
					rc.Fail("C13/emission-increased", "across governance blocks: recorded emission %d at h=%d > %s before", q.Tokens, c.Height, prevE)
				}
				prevE = sdk.NewInt(q.Tokens)
			}
		}
	}
	sumc := "sum<100"
	if tr.s+tr.d+tr.p == 100 {
		sumc = "sum=100"
	} else if tr.s+tr.d+tr.p == 0 {
		sumc = "sum=0"
	}
	rc.NonTrivial(fmt.Sprintf("tpb%s/dec%s/%s/%s/zero=%v/changed=%v/gov=%v/restart=%v", classifyMag(tpb), classifyMag(dec), sumc, denom, reachedZero, changed, govDone, restarted))
	rc.Sample(map[string]interface{}{"params": fmt.Sprintf("%+v", mp), "blocks": blocks, "first_blocks": sample})
}

func role(a, fee, dev, stip string) string {
	switch a {
	case fee:
		return "fee collector (stakers)"
	case dev:
		return "dev-grants account"
	case stip:
		return "stipend account"
	}
	return a
}

func unionDenoms(a, b sdk.Coins) []string {
	m := map[string]bool{}
	for _, c := range a {
		m[c.Denom] = true
	}
	for _, c := range b {
		m[c.Denom] = true
	}
	var out []string
	for k := range m {
		out = append(out, k)
	}
	return out
}
