package props

import (
	"fmt"
	"math/big"
	"strings"
	"time"

	sdk "github.com/cosmos/cosmos-sdk/types"
	authtypes "github.com/cosmos/cosmos-sdk/x/auth/types"

	"jkverif/chain"
	"jkverif/gen"

	jtypes "github.com/jackalLabs/canine-chain/v4/types"
	oracletypes "github.com/jackalLabs/canine-chain/v4/x/oracle/types"
	rnstypes "github.com/jackalLabs/canine-chain/v4/x/rns/types"
	storagetypes "github.com/jackalLabs/canine-chain/v4/x/storage/types"
)

// C04 – storage payments are charged exactly and split without misdirecting tokens.

func init() {
	Register(&Prop{
		ID:    "C04",
		Title: "Storage payments are charged exactly and split without misdirecting tokens",
		Cases: func(t string) int { return tierN(t, 120, 24000) },
		Run:   runC04,
		Rule: "case = one history of 8-14 purchases (MsgBuyStorage across the three size tiers and both sides of the one-year switch, for self/other, referral in {none, self, other address, rns name, unresolvable name, blocked module address, garbage}, plan state none/active/expired, payer rich or poor) and pay-once MsgPostFile (expiry below/above a day, far future), under one (ReferralCommission, PolRatio) pair from a grid incl. pol < discount and one price-feed state {absent, 0.2, 0.0001, 1000, garbage, 0}; " +
			"oracle per transaction from full balance + supply snapshots: failure => nothing moved and plan unchanged; success => debit == price from the keeper's exported price functions on the pre-state (with the statement's referral discount), new gauge escrow funded == recorded coins, POL == floor(D*(pol-discount)%)+-1, referrer or fee collector == floor(D*ref%)+-1, storage module keeps D - credits >= 0, no other account changes, supply unchanged; " +
			"non-trivial signature = (kind, tier, duration class, referral class, plan state, outcome)",
		Assumptions: []string{
			"the price the chain computes = keeper.GetStorageCost / UpgradeStorage / GetStorageCostKbs evaluated on the state just before the transaction",
			"amounts < 1e17 so 18-decimal rounding of ratios stays inside the one-unit tolerance",
		},
		MinNonTriv: 40,
	})
}

func safeCall(f func()) (panicked bool) {
	defer func() {
		if r := recover(); r != nil {
			panicked = true
		}
	}()
	f()
	return false
}

func runC04(rc *RunCtx) {
	type rp struct{ ref, pol int64 }
	grid := []rp{{25, 40}, {0, 0}, {10, 5}, {0, 100}, {100, 0}, {50, 50}, {25, 10}, {5, 4}, {33, 33}, {1, 12}}
	g := grid[rc.Intn(len(grid))]
	sp := storageParams(50, 5, 1024)
	sp.ReferralCommission = g.ref
	sp.PolRatio = g.pol
	feed := []string{"absent", "0.2", "0.0001", "1000", "garbage", "0", "absent", "0.2"}[rc.Intn(8)]
	fund := sdk.NewCoins(sdk.NewInt64Coin("ujkl", 50_000_000_000_000_000), sdk.NewInt64Coin("uatom", 1_000_000_000))
	c, err := chain.New(chain.Config{Seed: rc.Seed, NAcc: 5, Storage: sp, Fund: fund})
	if err != nil {
		rc.Abort("init: " + err.Error())
		return
	}
	defer c.Close()
	s := &SW{rc: rc, c: c}
	rc.Logf("ref=%d pol=%d feed=%s", g.ref, g.pol, feed)
	if _, err := c.NextBlock(6 * time.Second); err != nil {
		rc.Abort(err.Error())
		return
	}
	// account 4 is poor: send almost everything away
	poor := 4
	{
		keep := int64(rc.Intn(3_000_000))
		amt := c.Balance(c.Accs[poor].Bech, "ujkl").SubRaw(keep)
		c.DeliverAs(poor, bankSend(c.Accs[poor].Addr, c.Accs[3].Addr, sdk.NewCoins(sdk.NewCoin("ujkl", amt))))
	}
	// referrer name
	if r := c.DeliverAs(2, &rnstypes.MsgRegisterName{Creator: c.Accs[2].Bech, Name: "ref.jkl", Years: 2, Data: "{}"}); !r.OK() {
		rc.Abort("register: " + r.Log)
		return
	}
	if feed != "absent" {
		if r := c.DeliverAs(3, &oracletypes.MsgCreateFeed{Creator: c.Accs[3].Bech, Name: sp.PriceFeed}); !r.OK() {
			rc.Abort("feed: " + r.Log)
			return
		}
		data := fmt.Sprintf(`{"price":"%s","24h_change":"0"}`, feed)
		if feed == "garbage" {
			data = "}{ not json"
		}
		c.DeliverAs(3, &oracletypes.MsgUpdateFeed{Creator: c.Accs[3].Bech, Name: sp.PriceFeed, Data: data})
	}
	polAcc, _ := jtypes.GetPOLAccount()
	pol := polAcc.String()
	feeCol := chain.ModuleAddr(authtypes.FeeCollectorName).String()
	mod := storageModAddr()

	const GB = int64(1_000_000_000)
	sizes := []int64{GB, 3 * GB, GB - 1, 4999 * GB, 5000 * GB, 19_999 * GB, 20_000 * GB, 50_000 * GB, 2*GB + 7}
	durs := []int64{29, 30, 31, 364, 365, 366, 730, 1095, 45}
	freshRef := sdk.AccAddress([]byte(fmt.Sprintf("c04-fresh-referrer-%d", rc.Intn(1000000)))).String() // a valid address that has never appeared on chain
	refs := []string{"", "", c.Accs[0].Bech, c.Accs[2].Bech, "ref.jkl", "nobody.jkl", feeCol, "%%garbage", c.Accs[1].Bech, freshRef}
	refClass := []string{"none", "none", "acc0", "other", "name", "unresolvable", "blocked-module", "garbage", "acc1", "never-seen-address"}

	// buy delivers one MsgBuyStorage and judges it against the pre-state
	buy := func(payer, forAcc int, bytes, days int64, ri int, denom string, upper bool) {
		msg := &storagetypes.MsgBuyStorage{Creator: c.Accs[payer].Bech, ForAddress: c.Accs[forAcc].Bech, DurationDays: days, Bytes: bytes, PaymentDenom: denom, Referral: refs[ri]}
		if rc.Chance(0.15) {
			// the beneficiary's address written in upper case (the same account)
			msg.ForAddress = strings.ToUpper(msg.ForAddress)
			rc.Count("upper_case_beneficiaries", 1)
		}
		spell := "canonical"
		if upper {
			// the same account, spelled in upper case (valid bech32, same signer)
			msg.Creator = strings.ToUpper(msg.Creator)
			spell = "UPPER"
		}
		// ---- expectation from the pre-state
		ctx := c.Ctx()
		k := c.App.StorageKeeper
		params := k.GetParams(ctx)
		planState := "none"
		pi, havePlan := k.GetStoragePaymentInfo(ctx, c.Accs[forAcc].Bech)
		if havePlan {
			if pi.End.After(c.Time) {
				planState = "active"
			} else {
				planState = "expired"
			}
		}
		var price sdk.Int
		priceKnown := false
		duration := time.Duration(days) * 24 * time.Hour
		pricePanic := safeCall(func() {
			base := k.GetStorageCost(ctx, bytes/GB, int64(duration/time.Hour))
			price = base
			priceKnown = true
			if planState == "active" {
				coin, err := k.UpgradeStorage(ctx, bytes, pi, duration, base, "ujkl")
				if err != nil {
					priceKnown = false
					return
				}
				price = coin.Amount
			}
		})
		referred := false
		if ra, err := c.App.RnsKeeper.Resolve(ctx, refs[ri]); err == nil && ra.String() != c.Accs[payer].Bech {
			referred = true
		}
		var refAddr string
		if referred {
			ra, _ := c.App.RnsKeeper.Resolve(ctx, refs[ri])
			refAddr = ra.String()
		}
		discountPct := int64(0)
		if referred {
			if duration > 365*24*time.Hour {
				discountPct = 5
			} else {
				discountPct = 10
			}
		}
		pre := c.Snapshot()
		preSup := c.Supply()
		preGauges := gaugeAddrs(mustObs(s))
		r := c.Deliver(c.Accs[payer].Priv, msg)
		post := c.Snapshot()
		postSup := c.Supply()
		df := chain.Diff(pre, post)
		rc.Eval(1)
		rc.Count("purchases", 1)
		tier := "t1"
		if bytes/GB >= 20000 {
			tier = "t3"
		} else if bytes/GB >= 5000 {
			tier = "t2"
		}
		dcl := "<1y"
		if days >= 365 {
			dcl = ">=1y"
		}
		if days > 365 {
			dcl = ">1y"
		}
		outcome := "ok"
		if !r.OK() {
			outcome = "fail"
		}
		rc.Logf("h=%d buy creator-spelling=%s payer=acc%d for=acc%d bytes=%d days=%d ref=%s plan=%s denom=%s -> code=%d %s", c.Height, spell, payer, forAcc, bytes, days, refClass[ri], planState, msg.PaymentDenom, r.Code, failLog(r))
		if !preSup.IsEqual(postSup) {
			rc.Fail("C04/supply-changed", "purchase changed total supply %s -> %s", preSup, postSup)
		}
		if !r.OK() {
			if len(df) != 0 {
				rc.Fail("C04/failed-purchase-moved-funds", "failed MsgBuyStorage (%s) moved balances: %s", clip(r.Log), df)
			}
			pi2, have2 := k.GetStoragePaymentInfo(c.Ctx(), c.Accs[forAcc].Bech)
			if have2 != havePlan || (have2 && pi2.String() != pi.String()) {
				rc.Fail("C04/failed-purchase-changed-plan", "failed MsgBuyStorage changed the plan record")
			}
			rc.NonTrivial(fmt.Sprintf("buy/%s/%s/%s/%s/fail", tier, dcl, refClass[ri], planState))
			return
		}
		payerAddr := c.Accs[payer].Bech
		D := df.Of(payerAddr, "ujkl").Neg()
		if pricePanic || !priceKnown {
			rc.Fail("C04/purchase-succeeded-without-price", "MsgBuyStorage succeeded although the keeper's price functions reject/panic on the pre-state")
			return
		}
		want := price
		if referred {
			want = price.ToDec().Mul(sdk.NewDec(100 - discountPct)).QuoInt64(100).TruncateInt()
		}
		// payer may also be the referrer's/for's counterpart; payer == referrer is excluded by `referred`
		credits := sdk.ZeroInt()
		gross := D
		if refAddr == payerAddr {
			gross = D // not reachable
		}
		if !gross.Equal(want) {
			rc.Fail("C04/debit-not-price", "payer debited %s, chain price %s (base %s, referred=%v discount %d%%, plan %s)", gross, want, price, referred, discountPct, planState)
		}
		// gauge
		postGauges := gaugeAddrs(mustObs(s))
		var escrow string
		for a := range postGauges {
			if df.Of(a, "ujkl").IsPositive() {
				if escrow != "" {
					rc.Fail("C04/two-gauges-funded", "one purchase funded two gauge accounts")
				}
				escrow = a
			}
		}
		allowed := map[string]bool{payerAddr: true, pol: true, mod: true}
		if escrow == "" {
			// legitimate when the provider share is 0% (ref+pol = 100) or rounds to zero
			rc.Count("buy_no_gauge", 1)
		} else {
			allowed[escrow] = true
			funded := df.Of(escrow, "ujkl")
			rec := postGauges[escrow].Coins.AmountOf("ujkl")
			if !funded.Equal(rec) {
				rc.Fail("C04/gauge-funding-vs-record", "gauge records %s but its account received %s", rec, funded)
			}
			c04NewGauge(rc, c, preGauges, postGauges, escrow, refAddr)
			credits = credits.Add(funded)
		}
		within1 := func(got sdk.Int, pct int64) (bool, sdk.Int) {
			w := new(big.Int).Div(new(big.Int).Mul(D.BigInt(), big.NewInt(pct)), big.NewInt(100))
			d := new(big.Int).Sub(got.BigInt(), w)
			return d.CmpAbs(big.NewInt(1)) <= 0, sdk.NewIntFromBigInt(w)
		}
		polGot := df.Of(pol, "ujkl")
		if pol == refAddr {
			// degenerate: cannot separate
		} else if ok, w := within1(polGot, params.PolRatio-discountPct); !ok {
			rc.Fail("C04/pol-share", "protocol-liquidity account received %s, expected %d%%-%d%% of %s = %s", polGot, params.PolRatio, discountPct, D, w)
		}
		credits = credits.Add(polGot)
		if referred {
			allowed[refAddr] = true
			got := df.Of(refAddr, "ujkl")
			if refAddr != pol && refAddr != mod && refAddr != escrow {
				if ok, w := within1(got, params.ReferralCommission); !ok {
					rc.Fail("C04/referrer-share", "referrer received %s, expected %d%% of %s = %s", got, params.ReferralCommission, D, w)
				}
				credits = credits.Add(got)
			}
			if !df.Of(feeCol, "ujkl").IsZero() {
				rc.Fail("C04/fee-pool-paid-despite-referrer", "fee collector moved by %s although a distinct referrer was named", df.Of(feeCol, "ujkl"))
			}
		} else {
			allowed[feeCol] = true
			got := df.Of(feeCol, "ujkl")
			if ok, w := within1(got, params.ReferralCommission); !ok {
				rc.Fail("C04/staker-share", "fee collector received %s, expected %d%% of %s = %s (no distinct valid referrer)", got, params.ReferralCommission, D, w)
			}
			credits = credits.Add(got)
		}
		if credits.GT(D) {
			rc.Fail("C04/credits-exceed-debit", "credits %s > debit %s", credits, D)
		}
		if rem := df.Of(mod, "ujkl"); !rem.Equal(D.Sub(credits)) || rem.IsNegative() {
			rc.Fail("C04/module-remainder", "storage module moved by %s, debit %s - credits %s = %s", rem, D, credits, D.Sub(credits))
		}
		for _, a := range df.Accounts() {
			if !allowed[a] {
				rc.Fail("C04/other-account-changed", "account %s changed by %v", a, df[a])
			}
			for dn := range df[a] {
				if dn != "ujkl" {
					rc.Fail("C04/other-denom-moved", "account %s moved %s", a, dn)
				}
			}
		}
		rc.NonTrivial(fmt.Sprintf("buy/%s/%s/%s/%s/%s", tier, dcl, refClass[ri], planState, outcome))
	}

	n := 8 + rc.Intn(7)
	for i := 0; i < n; i++ {
		if rc.Chance(0.5) {
			dt := []time.Duration{6 * time.Second, 24 * time.Hour, 20 * 24 * time.Hour, 400 * 24 * time.Hour}[rc.Intn(4)]
			if _, err := c.NextBlock(dt); err != nil {
				if _, ok := err.(*chain.PanicError); ok {
					rc.Abort("BeginBlock panic (C05 territory): " + err.Error())
				} else {
					rc.Abort(err.Error())
				}
				return
			}
		}
		if rc.Chance(0.25) {
			c04PayOnce(rc, s, mod)
			continue
		}
		if rc.Chance(0.12) {
			// burst: 3-4 purchases in one block with the same price and end time (different buyers, same size / duration,
			// no referral): each must get a gauge of its own, funded with what it records
			bytes := sizes[rc.Intn(len(sizes))]
			days := durs[rc.Intn(len(durs))]
			for _, p := range []int{0, 1, 2, 3}[:3+rc.Intn(2)] {
				buy(p, p, bytes, days, 0, "ujkl", false)
			}
			rc.Count("equal_purchase_bursts", 1)
			continue
		}
		payer := []int{0, 0, 1, poor}[rc.Intn(4)]
		forAcc := payer
		if rc.Chance(0.3) {
			forAcc = rc.Intn(2)
		}
		denom := "ujkl"
		if rc.Chance(0.05) {
			denom = "uatom"
		}
		buy(payer, forAcc, sizes[rc.Intn(len(sizes))], durs[rc.Intn(len(durs))], rc.Intn(len(refs)), denom, rc.Chance(0.15))
	}
	rc.Sample(map[string]interface{}{"ref": g.ref, "pol": g.pol, "feed": feed, "trace_tail": tail(rc.Trace(), 6)})
}

func mustObs(s *SW) *StorageObs {
	o, err := s.Observe()
	if err != nil {
		return &StorageObs{}
	}
	return o
}

func c04PayOnce(rc *RunCtx, s *SW, mod string) {
	owner := []int{0, 1, 4}[rc.Intn(3)]
	f := gen.NewFile(randBytes(rc.Rng, int64(1+rc.Intn(3000))), 1024)
	size := []int64{-1, 1, 1_000_000, 5_000_000_000, 999}[rc.Intn(5)]
	if size < 0 {
		size = f.Size()
	}
	maxp := int64(1 + rc.Intn(4))
	// blocks ahead: below a day (14399), exactly a day (14400), above, far future
	ahead := []int64{1, 14_399, 14_400, 14_401, 100_000, 5_256_000, 50_000_000}[rc.Intn(7)]
	if rc.Chance(0.15) {
		// burst: 3-4 different files, same declared size / replication / expiry, same block: equal price and end time
		for k := 0; k < 3+rc.Intn(2); k++ {
			c04PayOncePost(rc, s, mod, owner, gen.NewFile(randBytes(rc.Rng, int64(1+rc.Intn(3000))), 1024), size, maxp, ahead)
		}
		rc.Count("equal_payonce_bursts", 1)
		return
	}
	if c04PayOncePost(rc, s, mod, owner, f, size, maxp, ahead) && rc.Chance(0.35) {
		// the same merkle again in the same block (same key, same expiry), declared bigger: a new purchase, charged in full
		c04PayOncePost(rc, s, mod, owner, f, size*int64(2+rc.Intn(1000)), int64(1+rc.Intn(4)), ahead)
		rc.Count("payonce_same_block_reposts", 1)
	}
}

func c04PayOncePost(rc *RunCtx, s *SW, mod string, owner int, f *gen.File, size, maxp, ahead int64) bool {
	c := s.c
	expires := c.Height + ahead
	k := c.App.StorageKeeper
	ctx := c.Ctx()
	var price sdk.Int
	known := false
	days := ((ahead * 6) / 60 / 60) / 24
	panicked := safeCall(func() {
		kbs := size * maxp / 1000
		if kbs < 1024 {
			kbs = 1024
		}
		hours := (ahead * 6) / 60 / 60
		price = k.GetStorageCostKbs(ctx, kbs, hours)
		known = true
	})
	pre := c.Snapshot()
	preSup := c.Supply()
	preGauges := gaugeAddrs(mustObs(s))
	r := c.DeliverAs(owner, &storagetypes.MsgPostFile{Creator: c.Accs[owner].Bech, Merkle: f.Root(), FileSize: size, MaxProofs: maxp, Expires: expires, Note: "{}"})
	post := c.Snapshot()
	df := chain.Diff(pre, post)
	rc.Eval(1)
	rc.Count("payonce_posts", 1)
	rc.Logf("h=%d pay-once post owner=acc%d size=%d maxp=%d ahead=%d -> code=%d %s", c.Height, owner, size, maxp, ahead, r.Code, failLog(r))
	if !preSup.IsEqual(c.Supply()) {
		rc.Fail("C04/supply-changed", "pay-once post changed total supply")
	}
	dcl := "<1d"
	if days >= 1 {
		dcl = ">=1d"
	}
	if !r.OK() {
		if len(df) != 0 {
			rc.Fail("C04/failed-post-moved-funds", "failed pay-once MsgPostFile (%s) moved balances: %s", clip(r.Log), df)
		}
		rc.NonTrivial("payonce/" + dcl + "/fail")
		return false
	}
	if days <= 0 {
		rc.Fail("C04/payonce-under-a-day-accepted", "pay-once post for %d blocks (< 1 day) succeeded", ahead)
	}
	payer := c.Accs[owner].Bech
	D := df.Of(payer, "ujkl").Neg()
	if panicked || !known {
		rc.Fail("C04/post-succeeded-without-price", "pay-once post succeeded although the price function panics on the pre-state")
		return true
	}
	if !D.Equal(price) {
		rc.Fail("C04/debit-not-price", "pay-once post debited %s, chain price %s", D, price)
	}
	gs := gaugeAddrs(mustObs(s))
	var escrow string
	for a := range gs {
		if df.Of(a, "ujkl").IsPositive() {
			escrow = a
		}
	}
	credits := sdk.ZeroInt()
	allowed := map[string]bool{payer: true, mod: true}
	if escrow != "" {
		allowed[escrow] = true
		funded := df.Of(escrow, "ujkl")
		if rec := gs[escrow].Coins.AmountOf("ujkl"); !funded.Equal(rec) {
			rc.Fail("C04/gauge-funding-vs-record", "pay-once gauge records %s but its account received %s", rec, funded)
		}
		c04NewGauge(rc, c, preGauges, gs, escrow, "")
		credits = funded
	} else if D.IsPositive() {
		// a zero-amount gauge is possible when the price rounds to zero; otherwise the debit must fund a gauge
		rc.Count("payonce_no_gauge", 1)
	}
	if credits.GT(D) {
		rc.Fail("C04/credits-exceed-debit", "pay-once: gauge %s > debit %s", credits, D)
	}
	if rem := df.Of(mod, "ujkl"); !rem.Equal(D.Sub(credits)) {
		rc.Fail("C04/module-remainder", "pay-once: storage module moved by %s, expected %s", rem, D.Sub(credits))
	}
	for _, a := range df.Accounts() {
		if !allowed[a] {
			rc.Fail("C04/other-account-changed", "pay-once: account %s changed by %v", a, df[a])
		}
	}
	rc.NonTrivial("payonce/" + dcl + "/ok")
	return true
}

// c04NewGauge: "the new provider gauge is funded with exactly the amount it records" - the payment must have created a
// gauge record of its own (not topped up the escrow account of an earlier gauge, whose record would then understate
// what the account holds), and right after the payment the escrow account holds exactly the recorded coins (nothing
// is released within the transaction). An escrow that is also the named referrer is left out (it legitimately gets
// the commission on top).
func c04NewGauge(rc *RunCtx, c *chain.Chain, pre, post map[string]storagetypes.PaymentGauge, escrow, refAddr string) {
	if _, old := pre[escrow]; old {
		rc.Fail("C04/payment-funded-an-existing-gauge", "the provider share went to the escrow account of a gauge that existed before the payment (%d gauge records before, %d after): no new gauge was created for it", len(pre), len(post))
		return
	}
	if len(post) != len(pre)+1 {
		rc.Fail("C04/gauge-count", "a payment with a provider share changed the number of gauge records from %d to %d", len(pre), len(post))
	}
	if escrow == refAddr {
		return
	}
	if bal, rec := c.Balance(escrow, "ujkl"), post[escrow].Coins.AmountOf("ujkl"); !bal.Equal(rec) {
		rc.Fail("C04/gauge-balance-vs-record", "new gauge records %s but its escrow account holds %s", rec, bal)
	}
}

func failLog(r chain.TxResult) string {
	if r.OK() {
		return ""
	}
	return clip(r.Log)
}
