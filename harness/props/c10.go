package props

import (
	"encoding/json"
	"fmt"
	"github.com/cosmos/cosmos-sdk/codec"
	"sort"
	"strings"
	"time"

	sdk "github.com/cosmos/cosmos-sdk/types"

	"jkverif/chain"

	fttypes "github.com/jackalLabs/canine-chain/v4/x/filetree/types"
)

// C10 – file-tree entries change only by their owner or, for posts, the
// folder's editors.
//
// Monitor: the raw `Files/value/` prefix of the filetree store is dumped after
// every message (deliver-state context) and compared, entry by entry and field
// by field, with the post-state predicted by the reference model of
// ftmodel.go (Appendix A.4). The File query is evaluated for every known
// (address, owner) pair after every message and must agree with the dump.

func init() {
	Register(&Prop{
		ID:    "C10",
		Title: "File-tree entries change only by their owner or, for posts, the folder's editors",
		Cases: func(t string) int { return tierN(t, 240, 24000) },
		Run:   runC10,
		Rule: "case = one history of 30..60 file-tree messages (all 11 handlers) signed by owner / editor / viewer / stranger over trees 3+ levels deep, ~40% of the messages with one crafted free-text field " +
			"(separators, quotes, braces, unicode, NUL, long, hex strings equal to another entry's address / owner key / account hash / access id, boundary shifts of Address||Account and Parent||Child, store-key layout shifts, " +
			"mismatched id/key counts, non-JSON access lists, stale references after an ownership move); every message is one oracle evaluation (full Files/value/ dump == model post-state, File query for every known pair); " +
			"non-trivial signature = (handler, signer's relation to the targeted entry [owner|editor|viewer|stranger|void], model verdict [applied|refused-by-chain|denied|void], crafted field class), counted only when the message reached the handler's decision " +
			"(applied: code 0 and exact predicted diff; denied: entry exists, signer lacks the right, code != 0, nothing changed)",
		Assumptions: []string{
			"a message the model permits but the chain refuses (e.g. ValidateBasic on an empty field) is not a violation of the statement (safety only); it is counted under permitted-but-refused",
			"access lists are compared as parsed JSON objects (id -> key); byte-level serialisation of a rewritten list is left to the implementation",
			"after a reset the value stored for the owner's own id is unconstrained when that id was absent before",
			"change-owner onto an owner key that already holds an entry at that address must change nothing (code unconstrained)",
			"a stored access list that is not a JSON object of strings is malformed: every message that has to read it must leave the tree unchanged",
			"SHA-256 collisions do not occur on the sample",
		},
		MinNonTriv: 45,
	})
}

type c10State struct {
	rc     *RunCtx
	c      *chain.Chain
	m      *ftModel
	acctS  map[ftKey]string // generator bookkeeping: account string a with Owner == ownerKey(Address, a)
	stale  []ftOp           // references that used to be right (before an ownership move / delete)
	names  []string
	tn     int
	pgTick int
}

func ftObserve(c *chain.Chain) (map[string]ftEntry, error) {
	out := map[string]ftEntry{}
	for k, v := range c.KV("filetree") {
		if !strings.HasPrefix(k, "Files/value/") {
			continue
		}
		var f fttypes.Files
		if err := f.Unmarshal(v); err != nil {
			return nil, fmt.Errorf("undecodable entry at %q: %v", k, err)
		}
		out[k] = ftEntry{Address: f.Address, Owner: f.Owner, Contents: f.Contents, Viewing: f.ViewingAccess, Editing: f.EditAccess, Tracking: f.TrackingNumber}
	}
	return out, nil
}

func ftShort(s string) string {
	if len(s) > 14 {
		return fmt.Sprintf("%s..(%d)", s[:12], len(s))
	}
	return s
}

func ftQ(s string) string {
	if len(s) > 90 {
		return fmt.Sprintf("%q..(%d bytes)", s[:80], len(s))
	}
	return fmt.Sprintf("%q", s)
}

// ftDiffModel lists the differences between the model state and the dump.
func ftDiffModel(m *ftModel, obs map[string]ftEntry) []string {
	var out []string
	seen := map[string]bool{}
	for _, k := range m.keys() {
		e := m.E[k]
		rk := ftRawKey(k.Addr, k.Owner)
		seen[rk] = true
		o, ok := obs[rk]
		if !ok {
			out = append(out, fmt.Sprintf("entry (%s,%s) missing from store", ftShort(k.Addr), ftShort(k.Owner)))
			continue
		}
		if o.Address != e.Address || o.Owner != e.Owner {
			out = append(out, fmt.Sprintf("entry at key (%s,%s) carries address/owner (%s,%s)", ftShort(k.Addr), ftShort(k.Owner), ftShort(o.Address), ftShort(o.Owner)))
		}
		if o.Contents != e.Contents {
			out = append(out, fmt.Sprintf("entry (%s,%s) contents %s, model %s", ftShort(k.Addr), ftShort(k.Owner), ftQ(o.Contents), ftQ(e.Contents)))
		}
		if o.Viewing != e.Viewing {
			out = append(out, fmt.Sprintf("entry (%s,%s) viewers %s, model %s", ftShort(k.Addr), ftShort(k.Owner), ftQ(o.Viewing), ftQ(e.Viewing)))
		}
		if o.Editing != e.Editing {
			out = append(out, fmt.Sprintf("entry (%s,%s) editors %s, model %s", ftShort(k.Addr), ftShort(k.Owner), ftQ(o.Editing), ftQ(e.Editing)))
		}
		if o.Tracking != e.Tracking {
			out = append(out, fmt.Sprintf("entry (%s,%s) tracking %s, model %s", ftShort(k.Addr), ftShort(k.Owner), ftQ(o.Tracking), ftQ(e.Tracking)))
		}
	}
	var extra []string
	for rk := range obs {
		if !seen[rk] {
			extra = append(extra, rk)
		}
	}
	sort.Strings(extra)
	for _, rk := range extra {
		o := obs[rk]
		out = append(out, fmt.Sprintf("store holds entry (%s,%s) [key %q] unknown to the model", ftShort(o.Address), ftShort(o.Owner), ftShort(rk)))
	}
	return out
}

func (op ftOp) msg() sdk.Msg {
	switch op.Kind {
	case "provision":
		return &fttypes.MsgProvisionFileTree{Creator: op.Signer, Editors: op.Editors, Viewers: op.Viewers, TrackingNumber: op.Tracking}
	case "post":
		return &fttypes.MsgPostFile{Creator: op.Signer, Account: op.Account, HashParent: op.Parent, HashChild: op.Child, Contents: op.Contents, Viewers: op.Viewers, Editors: op.Editors, TrackingNumber: op.Tracking}
	case "delete":
		return &fttypes.MsgDeleteFile{Creator: op.Signer, HashPath: op.Address, Account: op.Account}
	case "chown":
		return &fttypes.MsgChangeOwner{Creator: op.Signer, Address: op.Address, FileOwner: op.FileOwner, NewOwner: op.NewOwner}
	case "addv":
		return &fttypes.MsgAddViewers{Creator: op.Signer, ViewerIds: op.Ids, ViewerKeys: op.Keys, Address: op.Address, FileOwner: op.FileOwner}
	case "remv":
		return &fttypes.MsgRemoveViewers{Creator: op.Signer, ViewerIds: op.Ids, Address: op.Address, FileOwner: op.FileOwner}
	case "resetv":
		return &fttypes.MsgResetViewers{Creator: op.Signer, Address: op.Address, FileOwner: op.FileOwner}
	case "adde":
		return &fttypes.MsgAddEditors{Creator: op.Signer, EditorIds: op.Ids, EditorKeys: op.Keys, Address: op.Address, FileOwner: op.FileOwner}
	case "reme":
		return &fttypes.MsgRemoveEditors{Creator: op.Signer, EditorIds: op.Ids, Address: op.Address, FileOwner: op.FileOwner}
	case "resete":
		return &fttypes.MsgResetEditors{Creator: op.Signer, Address: op.Address, FileOwner: op.FileOwner}
	case "postkey":
		return &fttypes.MsgPostKey{Creator: op.Signer, Key: op.Key}
	}
	panic("kind")
}

func (op ftOp) String() string {
	switch op.Kind {
	case "provision":
		return fmt.Sprintf("provision editors=%s viewers=%s tracking=%s", ftQ(op.Editors), ftQ(op.Viewers), ftQ(op.Tracking))
	case "post":
		return fmt.Sprintf("post account=%s parent=%s child=%s contents=%s viewers=%s editors=%s tracking=%s", ftQ(op.Account), ftQ(op.Parent), ftQ(op.Child), ftQ(op.Contents), ftQ(op.Viewers), ftQ(op.Editors), ftQ(op.Tracking))
	case "delete":
		return fmt.Sprintf("delete hashPath=%s account=%s", ftQ(op.Address), ftQ(op.Account))
	case "chown":
		return fmt.Sprintf("change-owner address=%s fileOwner=%s newOwner=%s", ftQ(op.Address), ftQ(op.FileOwner), ftQ(op.NewOwner))
	case "addv", "adde":
		return fmt.Sprintf("%s ids=%s keys=%s address=%s fileOwner=%s", op.Kind, ftQ(op.Ids), ftQ(op.Keys), ftQ(op.Address), ftQ(op.FileOwner))
	case "remv", "reme":
		return fmt.Sprintf("%s ids=%s address=%s fileOwner=%s", op.Kind, ftQ(op.Ids), ftQ(op.Address), ftQ(op.FileOwner))
	case "resetv", "resete":
		return fmt.Sprintf("%s address=%s fileOwner=%s", op.Kind, ftQ(op.Address), ftQ(op.FileOwner))
	case "postkey":
		return fmt.Sprintf("postkey key=%s", ftQ(op.Key))
	}
	return op.Kind
}

func (s *c10State) actorName(bech string) string {
	for i, a := range s.c.Accs {
		if a.Bech == bech {
			return []string{"owner", "editor", "viewer", "stranger"}[i%4] + fmt.Sprintf("(a%d)", i)
		}
	}
	return bech
}

func (s *c10State) accessJSON(list string, tracking string, who []int, extra map[string]string) string {
	m := map[string]string{}
	id := ftEditorID
	if list == "v" {
		id = ftViewerID
	}
	listed := map[int]bool{}
	for _, i := range who {
		listed[i] = true
	}
	for _, i := range who {
		val := fmt.Sprintf("%sk%d", list, i)
		// hostile key material: the value next to an id is free text chosen by whoever writes the list. It may be the
		// access id of an account that is NOT listed, or text that would close the JSON string and open another pair
		// if it were ever copied unescaped. Neither lists that account.
		if s.rc.Chance(0.12) {
			for j := 0; j < 4; j++ {
				if !listed[j] {
					switch s.rc.Intn(3) {
					case 0:
						val = id(tracking, s.c.Accs[j].Bech)
					case 1:
						val = `k","` + id(tracking, s.c.Accs[j].Bech) + `":"k`
					default:
						val = `k\","` + id(tracking, s.c.Accs[j].Bech) + `":"\u0022`
					}
					s.rc.Count("access_lists_with_hostile_values", 1)
					break
				}
			}
		}
		m[id(tracking, s.c.Accs[i].Bech)] = val
	}
	for k, v := range extra {
		m[k] = v
	}
	b, _ := json.Marshal(m)
	return string(b)
}

func (s *c10State) tracking() string {
	s.tn++
	rc := s.rc
	switch rc.Intn(12) {
	case 0:
		return fmt.Sprintf("t/%d", s.tn)
	case 1:
		return fmt.Sprintf("t,%d\"{}", s.tn)
	case 2:
		return fmt.Sprintf("ü√%d\x00", s.tn)
	case 3:
		// a tracking number that ends with the beginning of a bech32 address: boundary of tracking||user
		return fmt.Sprintf("%d-%s", s.tn, s.c.Accs[rc.Intn(4)].Bech[:6])
	}
	return fmt.Sprintf("%08x-%04x-trk-%d", rc.Rng.Uint32(), rc.Intn(65536), s.tn)
}

var c10BadLists = []string{"not json", "[]", `{"a":1}`, "null", "{}", `{"x":"y"`, `"str"`, `{"a":{"b":"c"}}`, "{,}", " "}

func (s *c10State) subset(must int) []int {
	var out []int
	for i := 0; i < 4; i++ {
		if i == must || s.rc.Chance(0.35) {
			out = append(out, i)
		}
	}
	return out
}

// crafted strings for arbitrary fields
func (s *c10State) crafted() string {
	rc := s.rc
	keys := s.m.keys()
	pick := func() ftKey {
		if len(keys) == 0 {
			return ftKey{ftRootAddr(), ftH("x")}
		}
		return keys[rc.Intn(len(keys))]
	}
	switch rc.Intn(16) {
	case 0:
		return "/"
	case 1:
		return ","
	case 2:
		return "a/b"
	case 3:
		return `"{}"`
	case 4:
		return `{"x":"y"}`
	case 5:
		return "ü/√,☃"
	case 6:
		return "a\x00b"
	case 7:
		return ""
	case 8:
		return strings.Repeat("f", 700+rc.Intn(600))
	case 9:
		return pick().Addr
	case 10:
		return pick().Owner
	case 11:
		return ftAcct(s.c.Accs[rc.Intn(4)].Bech)
	case 12:
		return s.c.Accs[rc.Intn(4)].Bech
	case 13:
		k := pick()
		return k.Addr + "/" + k.Owner
	case 14:
		k := pick()
		if e := s.m.E[k]; e != nil {
			return ftEditorID(e.Tracking, s.c.Accs[rc.Intn(4)].Bech)
		}
		return ftH("none")
	default:
		return strings.ToUpper(pick().Addr)
	}
}

// shift moves n bytes across the boundary of a||b (n>0: from the end of a to the front of b).
func nfShift(a, b string, n int) (string, string) {
	if n > 0 {
		if n > len(a) {
			n = len(a)
		}
		return a[:len(a)-n], a[len(a)-n:] + b
	}
	n = -n
	if n > len(b) {
		n = len(b)
	}
	return a + b[:n], b[n:]
}

// genOp draws the next message. craft describes the crafted field class ("" = plain).
func (s *c10State) genOp() (op ftOp, craft string) {
	rc := s.rc
	keys := s.m.keys()
	signer := rc.Intn(4)
	if len(keys) == 0 || rc.Chance(0.04) {
		tr := s.tracking()
		op = ftOp{Kind: "provision", Signer: s.c.Accs[signer].Bech, Tracking: tr,
			Editors: s.accessJSON("e", tr, s.subset(signer), nil), Viewers: s.accessJSON("v", tr, s.subset(signer), nil)}
		if rc.Chance(0.2) {
			op.Editors = c10BadLists[rc.Intn(len(c10BadLists))]
			craft = "bad-list"
		} else if rc.Chance(0.1) {
			op.Viewers = c10BadLists[rc.Intn(len(c10BadLists))]
			craft = "bad-list"
		}
		return
	}
	if rc.Chance(0.03) {
		op = ftOp{Kind: "postkey", Signer: s.c.Accs[signer].Bech, Key: s.crafted()}
		if op.Key == "" {
			op.Key = "pk"
		}
		return
	}
	// stale reference replayed (old owner / deleted entry), possibly by the old owner
	if len(s.stale) > 0 && rc.Chance(0.07) {
		op = s.stale[rc.Intn(len(s.stale))]
		if rc.Chance(0.5) {
			op.Signer = s.c.Accs[signer].Bech
		}
		craft = "stale-ref"
		return
	}
	tk := keys[rc.Intn(len(keys))]
	t := s.m.E[tk]
	a := s.acctS[tk]
	// rightful signer with probability ~0.45
	rightful := rc.Chance(0.45)
	ownerIdx := -1
	for i, ac := range s.c.Accs {
		if ftIsOwner(t, ac.Bech) {
			ownerIdx = i
		}
	}
	kinds := []string{"post", "post", "post", "post", "post", "delete", "delete", "chown", "chown", "addv", "addv", "remv", "remv", "resetv", "adde", "adde", "reme", "reme", "reme", "resete"}
	kind := kinds[rc.Intn(len(kinds))]
	op = ftOp{Kind: kind, Signer: s.c.Accs[signer].Bech}
	if rightful {
		if kind == "post" {
			var eds []int
			for i, ac := range s.c.Accs {
				if can, ok := ftCanEdit(t, ac.Bech); ok && can {
					eds = append(eds, i)
				}
			}
			if len(eds) > 0 {
				signer = eds[rc.Intn(len(eds))]
			}
		} else if ownerIdx >= 0 {
			signer = ownerIdx
		}
		op.Signer = s.c.Accs[signer].Bech
	}
	ids := func(list string) string {
		cur := t.Viewing
		if list == "e" {
			cur = t.Editing
		}
		var pool []string
		if mp, ok := ftParseAccess(cur); ok {
			for k := range mp {
				pool = append(pool, k)
			}
			sort.Strings(pool)
		}
		n := 1 + rc.Intn(3)
		var out []string
		for i := 0; i < n; i++ {
			switch {
			case len(pool) > 0 && rc.Chance(0.6):
				id := pool[rc.Intn(len(pool))]
				if rc.Chance(0.12) {
					// a listed id with white space around it is a different id (it names nothing that is listed)
					id = rc.PickS([]string{" ", "\t", ""}) + id + rc.PickS([]string{" ", "\n", ""})
					craft = "padded-id"
				}
				out = append(out, id)
			case rc.Chance(0.8):
				if list == "e" {
					out = append(out, ftEditorID(t.Tracking, s.c.Accs[rc.Intn(4)].Bech))
				} else {
					out = append(out, ftViewerID(t.Tracking, s.c.Accs[rc.Intn(4)].Bech))
				}
			default:
				out = append(out, s.crafted())
			}
		}
		return strings.Join(out, ",")
	}
	keysFor := func(idstr string) string {
		n := len(strings.Split(idstr, ","))
		if rc.Chance(0.15) {
			n += rc.Intn(3) - 1 // mismatched counts (fewer -> the handler indexes out of range)
			if n < 1 {
				n = 1
			}
			craft = "count-mismatch"
		}
		var out []string
		for i := 0; i < n; i++ {
			out = append(out, fmt.Sprintf("k%d", rc.Intn(1000)))
		}
		return strings.Join(out, ",")
	}
	switch kind {
	case "post":
		name := s.names[rc.Intn(len(s.names))]
		tr := s.tracking()
		op.Account, op.Parent, op.Child = a, t.Address, ftH(name)
		if rc.Chance(0.06) {
			// the folder's account hash written with upper-case hex digits: a different string, so a different (absent) folder
			op.Account = strings.ToUpper(a)
			craft = "upper-case-account"
		}
		op.Contents = fmt.Sprintf(`{"n":%q,"v":%d}`, name, rc.Intn(1000))
		op.Tracking = tr
		op.Editors = s.accessJSON("e", tr, s.subset(signer), nil)
		op.Viewers = s.accessJSON("v", tr, s.subset(signer), nil)
		if rc.Chance(0.08) {
			op.Editors = c10BadLists[rc.Intn(len(c10BadLists))]
			craft = "bad-list"
		}
	case "delete":
		op.Address, op.Account = t.Address, a
	case "chown":
		op.Address, op.FileOwner = t.Address, a
		op.NewOwner = ftAcct(s.c.Accs[rc.Intn(4)].Bech)
	case "addv":
		op.Address, op.FileOwner = t.Address, t.Owner
		op.Ids = ids("v")
		op.Keys = keysFor(op.Ids)
	case "adde":
		op.Address, op.FileOwner = t.Address, t.Owner
		op.Ids = ids("e")
		op.Keys = keysFor(op.Ids)
	case "remv":
		op.Address, op.FileOwner, op.Ids = t.Address, t.Owner, ids("v")
	case "reme":
		op.Address, op.FileOwner, op.Ids = t.Address, t.Owner, ids("e")
	case "resetv", "resete":
		op.Address, op.FileOwner = t.Address, t.Owner
	}
	if craft != "" || !rc.Chance(0.4) {
		return
	}
	// one crafted field
	switch rc.Intn(10) {
	case 0, 1, 2, 3: // role confusion: the right entry, the wrong kind of reference
		craft = "ref-confusion"
		alts := []string{t.Owner, a, ftAcct(op.Signer), op.Signer, ftOwnerKey(t.Address, ftAcct(op.Signer)), ftOwnerKey(t.Address, t.Owner)}
		alt := alts[rc.Intn(len(alts))]
		switch kind {
		case "post", "delete":
			op.Account = alt
		case "chown":
			if rc.Chance(0.5) {
				op.FileOwner = alt
			} else {
				op.NewOwner = alt
			}
		default:
			op.FileOwner = alt
		}
	case 4, 5: // boundary shift of the concatenations that get hashed
		craft = "boundary-shift"
		n := 1 + rc.Intn(6)
		if rc.Chance(0.5) {
			n = -n
		}
		switch kind {
		case "post":
			if rc.Chance(0.5) {
				op.Parent, op.Child = nfShift(op.Parent, op.Child, n)
			} else {
				op.Parent, op.Account = nfShift(op.Parent, op.Account, n)
			}
		case "delete":
			op.Address, op.Account = nfShift(op.Address, op.Account, n)
		case "chown":
			if rc.Chance(0.5) {
				op.Address, op.FileOwner = nfShift(op.Address, op.FileOwner, n)
			} else {
				op.Address, op.NewOwner = nfShift(op.Address, op.NewOwner, n)
			}
		default:
			op.Address, op.FileOwner = nfShift(op.Address, op.FileOwner, n)
		}
	case 6: // store-key layout shift: Address/Owner/ read with the '/' elsewhere
		craft = "key-layout"
		full := t.Address + "/" + t.Owner
		cut := rc.Intn(len(full))
		x, y := full[:cut], full[cut:]
		y = strings.TrimPrefix(y, "/")
		switch kind {
		case "post":
			op.Parent = x
			if rc.Chance(0.5) {
				op.Account = y
			}
		case "delete":
			op.Address = x
			if rc.Chance(0.5) {
				op.Account = y
			}
		case "chown":
			op.Address = x
			if rc.Chance(0.5) {
				op.FileOwner = y
			}
		default:
			op.Address, op.FileOwner = x, y
		}
		if rc.Chance(0.3) {
			op.Address = full + "/"
		}
	default: // an arbitrary crafted string in one free-text field
		craft = "crafted-string"
		v := s.crafted()
		fields := map[string][]*string{
			"post":   {&op.Account, &op.Parent, &op.Child, &op.Contents, &op.Viewers, &op.Editors, &op.Tracking},
			"delete": {&op.Address, &op.Account},
			"chown":  {&op.Address, &op.FileOwner, &op.NewOwner},
			"addv":   {&op.Address, &op.FileOwner, &op.Ids, &op.Keys},
			"adde":   {&op.Address, &op.FileOwner, &op.Ids, &op.Keys},
			"remv":   {&op.Address, &op.FileOwner, &op.Ids},
			"reme":   {&op.Address, &op.FileOwner, &op.Ids},
			"resetv": {&op.Address, &op.FileOwner},
			"resete": {&op.Address, &op.FileOwner},
		}[kind]
		*fields[rc.Intn(len(fields))] = v
	}
	return
}

// relation of the signer to the entry the message resolves to (for the non-trivial signature).
func (s *c10State) relation(op ftOp) string {
	var t *ftEntry
	switch op.Kind {
	case "provision", "postkey":
		return "self"
	case "post":
		t = s.m.get(op.Parent, ftOwnerKey(op.Parent, op.Account))
	case "delete":
		t = s.m.get(op.Address, ftOwnerKey(op.Address, op.Account))
	case "chown":
		t = s.m.get(op.Address, ftOwnerKey(op.Address, op.FileOwner))
	default:
		t = s.m.get(op.Address, op.FileOwner)
	}
	if t == nil {
		return "void"
	}
	if ftIsOwner(t, op.Signer) {
		return "owner"
	}
	if can, ok := ftCanEdit(t, op.Signer); ok && can {
		return "editor"
	}
	if ftCanView(t, op.Signer) {
		return "viewer"
	}
	return "stranger"
}

func (s *c10State) signerIdx(bech string) int {
	for i, a := range s.c.Accs {
		if a.Bech == bech {
			return i
		}
	}
	return 0
}

// step delivers one message and evaluates the oracle. Returns false when the case must stop.
func (s *c10State) step(op ftOp, craft string) bool {
	rc, c := s.rc, s.c
	v := s.m.Apply(op)
	rel := s.relation(op)
	var res chain.TxResult
	if si := s.signerIdx(op.Signer); rc.Chance(0.05) {
		// one transaction: the message, then a transfer of more than the signer owns; the transaction is refused as a
		// whole and nothing of the first message may remain
		huge, _ := sdk.NewIntFromString("1000000000000000000000000000000")
		res = c.DeliverAs(si, op.msg(), bankSend(c.Accs[si].Addr, c.Accs[(si+1)%len(c.Accs)].Addr, sdk.NewCoins(sdk.NewCoin("ujkl", huge))))
		rc.Count("messages_in_a_transaction_that_rolls_back", 1)
	} else {
		res = c.DeliverAs(si, op.msg())
	}
	rc.Eval(1)
	rc.Count("msg/"+op.Kind, 1)
	rc.Logf("h=%d %s: %s -> code=%d%s | model: permit=%v mustFail=%v (%s)", c.Height, s.actorName(op.Signer), op.String(), res.Code, nfLogTail(res), v.Permit, v.MustFail, v.Why)
	if res.Code == 1<<30 {
		rc.Abort("tx could not be built: " + res.Log)
		return false
	}
	obs, err := ftObserve(c)
	if err != nil {
		rc.Fail("C10/"+op.Kind+"/store-corrupt", "%v", err)
		return false
	}
	unchanged := ftDiffModel(s.m, obs)
	sigBase := "C10/" + op.Kind + "/"
	who := fmt.Sprintf("%s signing %s", s.actorName(op.Signer), op.String())
	switch {
	case res.Code != 0:
		if len(unchanged) > 0 {
			rc.Fail(sigBase+"failed-message-changed-tree", "%s failed (code %d) yet the tree changed: %s", who, res.Code, strings.Join(unchanged, "; "))
			return false
		}
		if v.Permit {
			rc.Count("permitted-but-refused/"+op.Kind, 1)
			rc.NonTrivial(fmt.Sprintf("%s/%s/refused-by-chain/%s", op.Kind, rel, craft))
		} else if v.MustFail {
			rc.NonTrivial(fmt.Sprintf("%s/%s/denied/%s", op.Kind, rel, craft))
		} else {
			rc.NonTrivial(fmt.Sprintf("%s/%s/void/%s", op.Kind, rel, craft))
		}
	case !v.Permit:
		if len(unchanged) > 0 {
			rc.Fail(sigBase+"unauthorised-change", "%s: model says the tree must not change (%s) but: %s", who, v.Why, strings.Join(unchanged, "; "))
			return false
		}
		if v.MustFail {
			rc.Fail(sigBase+"unauthorised-accepted", "%s was accepted with code 0 although %s", who, v.Why)
			return false
		}
		rc.NonTrivial(fmt.Sprintf("%s/%s/void-accepted/%s", op.Kind, rel, craft))
	default:
		post := v.Post
		if v.List != "" {
			k := v.Touched[0]
			o, ok := obs[ftRawKey(k.Addr, k.Owner)]
			if !ok {
				rc.Fail(sigBase+"wrong-diff", "%s: entry (%s,%s) vanished", who, ftShort(k.Addr), ftShort(k.Owner))
				return false
			}
			got := o.Viewing
			if v.List == "e" {
				got = o.Editing
			}
			gm, ok := ftParseAccess(got)
			if !ok {
				rc.Fail(sigBase+"wrong-diff", "%s: rewritten access list is not a JSON object: %s", who, ftQ(got))
				return false
			}
			var bad []string
			for id, want := range v.WantMap {
				g, ok := gm[id]
				if !ok {
					bad = append(bad, fmt.Sprintf("id %s missing", ftShort(id)))
				} else if g != want && !v.FreeValueIDs[id] {
					bad = append(bad, fmt.Sprintf("id %s has key %s, want %s", ftShort(id), ftQ(g), ftQ(want)))
				}
			}
			for id := range gm {
				if _, ok := v.WantMap[id]; !ok {
					bad = append(bad, fmt.Sprintf("id %s present but must not be", ftShort(id)))
				}
			}
			if len(bad) > 0 {
				sort.Strings(bad)
				rc.Fail(sigBase+"wrong-access-list", "%s: list after = %s: %s", who, ftQ(got), strings.Join(bad, "; "))
				return false
			}
			pe := post.E[k]
			if v.List == "e" {
				pe.Editing = got
			} else {
				pe.Viewing = got
			}
		}
		if d := ftDiffModel(post, obs); len(d) > 0 {
			rc.Fail(sigBase+"wrong-diff", "%s: permitted (%s) but the tree differs from the predicted post-state: %s", who, v.Why, strings.Join(d, "; "))
			return false
		}
		if op.Kind == "post" {
			var r fttypes.MsgPostFileResponse
			if err := res.MsgResponse(0, &r); err != nil || r.Path != v.ReturnPath {
				rc.Fail("C10/post/returned-path", "%s returned path %q (err %v), entry written at %s", who, r.Path, err, v.ReturnPath)
				return false
			}
		}
		// generator bookkeeping
		switch op.Kind {
		case "provision":
			s.acctS[v.Touched[0]] = ftAcct(op.Signer)
		case "post":
			s.acctS[v.Touched[0]] = op.Account
		case "chown":
			delete(s.acctS, v.Touched[0])
			s.acctS[v.Touched[1]] = op.NewOwner
			s.stale = append(s.stale, op, ftOp{Kind: "delete", Signer: op.Signer, Address: op.Address, Account: op.FileOwner},
				ftOp{Kind: "delete", Signer: op.Signer, Address: op.Address, Account: op.NewOwner},
				ftOp{Kind: "resete", Signer: op.Signer, Address: op.Address, FileOwner: v.Touched[1].Owner},
				ftOp{Kind: "reme", Signer: op.Signer, Address: op.Address, FileOwner: v.Touched[1].Owner, Ids: ftEditorID(post.E[v.Touched[1]].Tracking, s.c.Accs[s.rc.Intn(4)].Bech)})
		case "delete":
			delete(s.acctS, v.Touched[0])
			s.stale = append(s.stale, op)
		}
		changed := len(unchanged) > 0
		s.m = post
		rc.Count("applied/"+op.Kind, 1)
		rc.NonTrivial(fmt.Sprintf("%s/%s/applied(changed=%v)/%s", op.Kind, rel, changed, craft))
	}
	// File query for every known pair (model, dump, and the pairs the message named)
	return s.checkQueries(op, obs)
}

func nfLogTail(r chain.TxResult) string {
	if r.Code == 0 {
		return ""
	}
	l := r.Log
	if i := strings.Index(l, "\n"); i >= 0 {
		l = l[:i]
	}
	if len(l) > 110 {
		l = l[:110] + "…"
	}
	return " (" + l + ")"
}

func (s *c10State) checkQueries(op ftOp, obs map[string]ftEntry) bool {
	rc, c := s.rc, s.c
	pairs := map[ftKey]bool{}
	for k := range s.m.E {
		pairs[k] = true
	}
	for _, o := range obs {
		pairs[ftKey{o.Address, o.Owner}] = true
	}
	switch op.Kind {
	case "post":
		pairs[ftKey{op.Parent, ftOwnerKey(op.Parent, op.Account)}] = true
		a := ftStep(op.Parent, op.Child)
		pairs[ftKey{a, ftOwnerKey(a, op.Account)}] = true
	case "delete":
		pairs[ftKey{op.Address, ftOwnerKey(op.Address, op.Account)}] = true
		pairs[ftKey{op.Address, op.Account}] = true
	case "chown":
		pairs[ftKey{op.Address, ftOwnerKey(op.Address, op.FileOwner)}] = true
		pairs[ftKey{op.Address, ftOwnerKey(op.Address, op.NewOwner)}] = true
	case "provision", "postkey":
	default:
		pairs[ftKey{op.Address, op.FileOwner}] = true
	}
	for k := range pairs {
		var resp fttypes.QueryFileResponse
		err := c.GRPC("/canine_chain.filetree.Query/File", &fttypes.QueryFile{Address: k.Addr, OwnerAddress: k.Owner}, &resp)
		e := s.m.E[k]
		if e == nil {
			if err == nil {
				rc.Fail("C10/file-query-finds-absent-entry", "after %s: File(%s,%s) answers %+v but no such entry exists", op.Kind, ftQ(k.Addr), ftQ(k.Owner), resp.File)
				return false
			}
			continue
		}
		if err != nil {
			rc.Fail("C10/file-query-misses-entry", "after %s: File(%s,%s): %v", op.Kind, ftShort(k.Addr), ftShort(k.Owner), err)
			return false
		}
		f := resp.File
		if f.Address != e.Address || f.Owner != e.Owner || f.Contents != e.Contents || f.ViewingAccess != e.Viewing || f.EditAccess != e.Editing || f.TrackingNumber != e.Tracking {
			rc.Fail("C10/file-query-differs", "after %s: File(%s,%s) = %+v, store/model = %+v", op.Kind, ftShort(k.Addr), ftShort(k.Owner), f, *e)
			return false
		}
	}
	// a client paging through the tree listing sees every entry exactly once (paging.go), every 5th step
	s.pgTick++
	if s.pgTick%5 == 0 {
		checkPaging(rc, c, []listQuery{{Path: "/canine_chain.filetree.Query/AllFiles", Req: func() codec.ProtoMarshaler { return &fttypes.QueryAllFiles{} }, Resp: &fttypes.QueryAllFilesResponse{}}}, s.pgTick/5)
	}
	return true
}

func runC10(rc *RunCtx) {
	c, err := chain.New(chain.Config{Seed: rc.Seed*131 + int64(rc.Case%7), NAcc: 4})
	if err != nil {
		rc.Abort("init: " + err.Error())
		return
	}
	defer c.Close()
	if _, err := c.BeginBlock(6 * time.Second); err != nil {
		rc.Abort("beginblock: " + err.Error())
		return
	}
	s := &c10State{rc: rc, c: c, m: newFtModel(), acctS: map[ftKey]string{}}
	pool := []string{"home", "docs", "file.txt", "ü√", "a,b", `q"{}`, "x\x00y", "pics", "s", ""}
	for i := 0; i < 6; i++ {
		s.names = append(s.names, pool[rc.Intn(len(pool))])
	}
	s.names = append(s.names, "home", "docs")
	for i, a := range c.Accs {
		rc.Logf("a%d = %s acct=%s", i, a.Bech, ftShort(ftAcct(a.Bech)))
	}
	if obs, err := ftObserve(c); err != nil || len(obs) != 0 {
		rc.Abort(fmt.Sprintf("genesis file tree not empty (%d entries, err %v)", len(obs), err))
		return
	}
	// scaffold: owner's root, home (owner), home/docs (posted by the editor), home/docs/file (owner)
	b := func(i int) string { return c.Accs[i].Bech }
	tr := s.tracking()
	steps := []func() ftOp{
		func() ftOp {
			return ftOp{Kind: "provision", Signer: b(0), Tracking: tr, Editors: s.accessJSON("e", tr, []int{0, 1}, nil), Viewers: s.accessJSON("v", tr, []int{0, 2}, nil)}
		},
		func() ftOp {
			t := s.tracking()
			return ftOp{Kind: "post", Signer: b(0), Account: ftAcct(b(0)), Parent: ftRootAddr(), Child: ftH("home"), Contents: `{"d":1}`, Tracking: t,
				Editors: s.accessJSON("e", t, []int{0, 1}, nil), Viewers: s.accessJSON("v", t, []int{0, 1, 2}, nil)}
		},
		func() ftOp {
			t := s.tracking()
			return ftOp{Kind: "post", Signer: b(1), Account: ftAcct(b(0)), Parent: ftFold([]string{"s", "home"}), Child: ftH("docs"), Contents: `{"d":2}`, Tracking: t,
				Editors: s.accessJSON("e", t, []int{0, 1}, nil), Viewers: s.accessJSON("v", t, []int{0, 2}, nil)}
		},
		func() ftOp {
			t := s.tracking()
			return ftOp{Kind: "post", Signer: b(0), Account: ftAcct(b(0)), Parent: ftFold([]string{"s", "home", "docs"}), Child: ftH("file.txt"), Contents: `{"f":3}`, Tracking: t,
				Editors: s.accessJSON("e", t, []int{0}, nil), Viewers: s.accessJSON("v", t, []int{0, 2}, nil)}
		},
	}
	for _, f := range steps {
		if !s.step(f(), "") {
			return
		}
	}
	if rc.Chance(0.6) {
		t := s.tracking()
		if !s.step(ftOp{Kind: "provision", Signer: b(3), Tracking: t, Editors: s.accessJSON("e", t, []int{3}, nil), Viewers: s.accessJSON("v", t, []int{3}, nil)}, "") {
			return
		}
	}
	n := 30 + rc.Intn(31)
	maxDepthSeen := 3
	for i := 0; i < n; i++ {
		if rc.Chance(0.25) {
			if _, err := c.NextBlock(6 * time.Second); err != nil {
				rc.Abort("block: " + err.Error())
				return
			}
			obs, err := ftObserve(c)
			if err == nil {
				if d := ftDiffModel(s.m, obs); len(d) > 0 {
					rc.Fail("C10/block-boundary-changed-tree", "tree changed across a block boundary: %s", strings.Join(d, "; "))
					return
				}
			}
		}
		op, craft := s.genOp()
		if !s.step(op, craft) {
			return
		}
	}
	_ = maxDepthSeen
	rc.Sample(map[string]interface{}{"messages": n + len(steps), "entries_at_end": len(s.m.E), "trace_head": nfHead(rc.Trace(), 14)})
}

func nfHead(xs []string, n int) []string {
	if len(xs) > n {
		return xs[:n]
	}
	return xs
}
