package props

import (
	"fmt"
	authtypes "github.com/cosmos/cosmos-sdk/x/auth/types"
	"math"
	"reflect"
	"regexp"
	"strings"
	"time"

	sdk "github.com/cosmos/cosmos-sdk/types"

	"jkverif/chain"
	"jkverif/gen"

	"github.com/jackalLabs/canine-chain/v4/app"
	filetreekeeper "github.com/jackalLabs/canine-chain/v4/x/filetree/keeper"
	filetreetypes "github.com/jackalLabs/canine-chain/v4/x/filetree/types"
	notiftypes "github.com/jackalLabs/canine-chain/v4/x/notifications/types"
	oracletypes "github.com/jackalLabs/canine-chain/v4/x/oracle/types"
	rnstypes "github.com/jackalLabs/canine-chain/v4/x/rns/types"
	storagetypes "github.com/jackalLabs/canine-chain/v4/x/storage/types"
)

// C05 – no sequence of valid transactions can make block processing panic.
//
// Mutational history fuzzing over every message type of the custom modules;
// the oracle is the panic monitor around BeginBlock / EndBlock / Commit.

func init() {
	Register(&Prop{
		ID:    "C05",
		Title: "No sequence of valid transactions can make block processing panic",
		Cases: func(t string) int { return tierN(t, 128, 4000) },
		Run:   runC05,
		Rule: "case = one history: a scaffold reaching files with provers, gauges, plans, forms, names, bids, listings, file-tree entries, feeds and notifications, then 4-7 bursts of 8-16 transactions each; a transaction is either a semantically valid template message with 1-2 fields replaced from boundary / hostile pools (numeric: 0, +-1, 2^31, 2^62, MaxInt64, MinInt64, products that overflow; strings: separators, unicode, empty, very long, look-alike addresses; bytes; coins) or a type-directed random message of a type drawn round-robin from all registered custom message types; only transactions that pass ValidateBasic are delivered (that count is `valid_txs`); creators occasionally spell their address in upper case; 45% of the histories also pass 1-3 per burst governance parameter-change proposals with boundary values for the custom modules' parameters (real MsgSubmitProposal + MsgVote); after each burst honest provers prove and the chain runs through >= 2 reward heights with time jumps past gauge ends; " +
			"oracle: recover() around BeginBlock, EndBlock and Commit of the assembled app (a panic inside DeliverTx is recovered by the SDK and is not a violation); " +
			"non-trivial signature = (message type, mutated field, value class) of a mutated transaction that executed with code 0 and was followed by a reward block with a non-empty prover set",
		Assumptions: []string{
			"genesis balances are 1e16 base units per account (10 billion JKL); states that need more money than that are not considered reachable",
			"transactions are signed by their creator; unsigned / wrongly signed transactions never reach a handler (C11)",
		},
		MinNonTriv: 60,
	})
}

// governance-settable parameters of the custom modules: {subspace, key, candidate JSON values...}
var c05GovParams = [][]string{
	{"storage", "CheckWindow", `"0"`, `"1"`, `"2"`, `"3"`, `"-1"`, `"9223372036854775807"`},
	{"storage", "ProofWindow", `"0"`, `"1"`, `"2"`, `"-5"`, `"9223372036854775807"`},
	{"storage", "ChunkSize", `"0"`, `"1"`, `"-1"`, `"9223372036854775807"`},
	{"storage", "MissesToBurn", `"0"`, `"1"`, `"-1"`},
	{"storage", "MaxContractAgeInBlocks", `"0"`, `"-1"`},
	{"storage", "PricePerTbPerMonth", `"0"`, `"-1"`, `"9223372036854775807"`},
	{"storage", "AttestFormSize", `"0"`, `"-1"`, `"1"`, `"9223372036854775807"`},
	{"storage", "AttestMinToPass", `"0"`, `"-1"`, `"9223372036854775807"`},
	{"storage", "CollateralPrice", `"0"`, `"1"`, `"2"`, `"-1"`, `"9223372036854775807"`},
	{"storage", "Referrals", `"0"`, `"100"`, `"101"`, `"-1"`, `"9223372036854775807"`},
	{"storage", "POLRatio", `"0"`, `"100"`, `"101"`, `"-1"`, `"9223372036854775807"`},
	{"storage", "PriceFeed", `""`, `" "`, `"nofeed"`},
	{"storage", "DepositAccount", `""`, `"x"`, `" "`},
	{"jklmint", "TokensPerBlock", `"0"`, `"-1"`, `"9223372036854775807"`},
	{"jklmint", "MintIncrease", `"0"`, `"-1"`, `"9223372036854775807"`, `"5256000000"`},
	{"jklmint", "StakerRatio", `"0"`, `"100"`, `"101"`, `"-1"`, `"9223372036854775807"`},
	{"jklmint", "DevGrants", `"0"`, `"100"`, `"-1"`, `"9223372036854775807"`},
	{"jklmint", "ProviderRatio", `"0"`, `"100"`, `"-1"`, `"9223372036854775807"`},
	{"jklmint", "MintDenom", `""`, `"ujkl"`, `"!!"`, `"a"`, `"UJKL"`, `"ibc/ABC"`, `" ujkl"`, `"ujkl "`, `" "`, `"\tujkl\n"`},
	{"jklmint", "StorageStipend", `""`, `"nonsense"`, `" "`},
	{"oracle", "Deposit", `""`, `"nonsense"`, `" "`},
}

var c05Digits = regexp.MustCompile(`[0-9]+`)
var c05Addr = regexp.MustCompile(`jkl1[0-9a-z]{20,}`)

func c05Norm(s string) string {
	s = c05Addr.ReplaceAllString(s, "ADDR")
	s = c05Digits.ReplaceAllString(s, "N")
	if len(s) > 90 {
		s = s[:90]
	}
	return s
}

type c05Tmpl struct {
	signer int
	msg    sdk.Msg
}

type c05World struct {
	*SW
	rc     *RunCtx
	honest []struct {
		p int
		w *WFile
	}
	names   []string
	ftAddrs []string
	typeIdx int
	cands   map[string]*gen.File
	types   []string
	pending []string
	sawProv bool
}

var c05Ints = []int64{0, 1, -1, 2, 3, 7, 100, 1000, 1 << 31, 1 << 62, math.MaxInt64, math.MinInt64, math.MaxInt64/2 + 1, math.MaxInt64 / 3, -1 << 31, 1_000_000_000, 5_256_000, 1 << 40}

func c05IntClass(v int64) string {
	switch {
	case v == 0:
		return "0"
	case v == math.MaxInt64:
		return "max"
	case v == math.MinInt64:
		return "min"
	case v < 0:
		return "neg"
	case v >= 1<<60:
		return "huge"
	case v >= 1<<31:
		return "big"
	default:
		return "small"
	}
}

func (w *c05World) hostileString() (string, string) {
	r := w.rc
	c := w.c
	switch r.Intn(14) {
	case 0:
		return "", "empty"
	case 1:
		return "/", "sep"
	case 2:
		return ",", "sep"
	case 3:
		return strings.Repeat("A", 5000), "long"
	case 4:
		return "名前.jkl", "unicode"
	case 5:
		return `{"a":{"b":[1,2,{"c":null}]}}`, "json"
	case 6:
		return "{}", "json"
	case 7:
		return c.Accs[r.Intn(len(c.Accs))].Bech, "addr"
	case 8:
		if len(w.names) > 0 {
			return w.names[r.Intn(len(w.names))], "name"
		}
		return "nobody.jkl", "name"
	case 9:
		if len(w.ftAddrs) > 0 {
			return w.ftAddrs[r.Intn(len(w.ftAddrs))], "hash"
		}
		return strings.Repeat("ab", 32), "hash"
	case 10:
		return "\x00\x01", "ctrl"
	case 11:
		return chain.ModuleAddr("storage").String(), "module-addr"
	case 12:
		return "a.b.c.jkl", "dots"
	default:
		return fmt.Sprintf("%d", c05Ints[r.Intn(len(c05Ints))]), "numstr"
	}
}

// mutate replaces one field of m (never Creator) with a pool value; returns "<field>/<class>".
func (w *c05World) mutate(m sdk.Msg) string {
	r := w.rc
	v := reflect.ValueOf(m).Elem()
	t := v.Type()
	var idx []int
	for i := 0; i < t.NumField(); i++ {
		f := t.Field(i)
		if strings.HasPrefix(f.Name, "XXX_") || f.PkgPath != "" || f.Name == "Creator" {
			continue
		}
		idx = append(idx, i)
	}
	if len(idx) == 0 {
		return ""
	}
	i := idx[r.Intn(len(idx))]
	f := t.Field(i)
	fv := v.Field(i)
	switch {
	case f.Type.Kind() == reflect.Int64 || f.Type.Kind() == reflect.Int32:
		x := c05Ints[r.Intn(len(c05Ints))]
		if r.Chance(0.15) {
			x = w.c.Height + int64(r.Intn(5)) - 2
		}
		fv.SetInt(x)
		return f.Name + "/" + c05IntClass(x)
	case f.Type.Kind() == reflect.Uint64:
		x := c05Ints[r.Intn(len(c05Ints))]
		fv.SetUint(uint64(x))
		return f.Name + "/" + c05IntClass(x)
	case f.Type.Kind() == reflect.String:
		s, cl := w.hostileString()
		fv.SetString(s)
		return f.Name + "/" + cl
	case f.Type.Kind() == reflect.Slice && f.Type.Elem().Kind() == reflect.Uint8:
		switch r.Intn(4) {
		case 0:
			fv.SetBytes(nil)
			return f.Name + "/nil"
		case 1:
			fv.SetBytes(randBytes(r.Rng, int64(1+r.Intn(70))))
			return f.Name + "/random"
		case 2:
			if len(w.Files) > 0 {
				fv.SetBytes(w.Files[r.Intn(len(w.Files))].F.Root())
				return f.Name + "/other-root"
			}
			fallthrough
		default:
			fv.SetBytes([]byte(`{"Hashes":[],"Index":0}`))
			return f.Name + "/json"
		}
	case f.Type.Kind() == reflect.Slice && f.Type.Elem().Kind() == reflect.String:
		n := r.Intn(4)
		var xs []string
		for j := 0; j < n; j++ {
			s, _ := w.hostileString()
			xs = append(xs, s)
		}
		fv.Set(reflect.ValueOf(xs))
		return f.Name + fmt.Sprintf("/list%d", n)
	case f.Type.Kind() == reflect.Bool:
		fv.SetBool(!fv.Bool())
		return f.Name + "/flip"
	case f.Type == reflect.TypeOf(sdk.Coin{}):
		amts := []string{"0", "1", "1000000", "9223372036854775807", "9223372036854775808", "100000000000000000000000000"}
		a, _ := sdk.NewIntFromString(amts[r.Intn(len(amts))])
		d := []string{"ujkl", "uatom", "ibc/ABCDEF"}[r.Intn(3)]
		fv.Set(reflect.ValueOf(sdk.Coin{Denom: d, Amount: a}))
		return f.Name + "/coin"
	}
	return ""
}

// randomOfType builds a message of the given registered type with every field filled from the pools.
func (w *c05World) randomOfType(url string) (sdk.Msg, int) {
	reg := app.MakeEncodingConfig().InterfaceRegistry
	pm, err := reg.Resolve(url)
	if err != nil {
		return nil, 0
	}
	m, ok := pm.(sdk.Msg)
	if !ok {
		return nil, 0
	}
	signer := w.rc.Intn(len(w.c.Accs))
	v := reflect.ValueOf(m).Elem()
	t := v.Type()
	for i := 0; i < t.NumField(); i++ {
		f := t.Field(i)
		if strings.HasPrefix(f.Name, "XXX_") || f.PkgPath != "" {
			continue
		}
		fv := v.Field(i)
		if f.Name == "Creator" {
			fv.SetString(w.c.Accs[signer].Bech)
			continue
		}
		switch {
		case f.Type.Kind() == reflect.String:
			// bias towards values that make the handler go deep
			switch {
			case strings.Contains(f.Name, "Name") && len(w.names) > 0 && w.rc.Chance(0.7):
				fv.SetString(w.names[w.rc.Intn(len(w.names))])
			case (f.Name == "Owner" || f.Name == "Prover" || f.Name == "ForAddress" || f.Name == "Receiver" || f.Name == "From" || f.Name == "To" || f.Name == "ClaimAddress" || f.Name == "Referral") && w.rc.Chance(0.8):
				fv.SetString(w.c.Accs[w.rc.Intn(len(w.c.Accs))].Bech)
			case (f.Name == "Address" || f.Name == "HashParent" || f.Name == "HashPath") && len(w.ftAddrs) > 0 && w.rc.Chance(0.7):
				fv.SetString(w.ftAddrs[w.rc.Intn(len(w.ftAddrs))])
			case (f.Name == "Note" || f.Name == "Contents" || f.Name == "Data") && w.rc.Chance(0.7):
				fv.SetString(`{"k":"v"}`)
			case f.Name == "PaymentDenom" && w.rc.Chance(0.8):
				fv.SetString("ujkl")
			default:
				s, _ := w.hostileString()
				fv.SetString(s)
			}
		case f.Type.Kind() == reflect.Int64:
			if f.Name == "Start" && len(w.Files) > 0 && w.rc.Chance(0.7) {
				fv.SetInt(w.Files[w.rc.Intn(len(w.Files))].Start)
			} else {
				fv.SetInt(c05Ints[w.rc.Intn(len(c05Ints))])
			}
		case f.Type.Kind() == reflect.Slice && f.Type.Elem().Kind() == reflect.Uint8:
			if len(w.Files) > 0 && w.rc.Chance(0.7) {
				fv.SetBytes(w.Files[w.rc.Intn(len(w.Files))].F.Root())
			} else {
				fv.SetBytes(randBytes(w.rc.Rng, int64(w.rc.Intn(70))))
			}
		case f.Type.Kind() == reflect.Slice && f.Type.Elem().Kind() == reflect.String:
			fv.Set(reflect.ValueOf([]string{w.c.Accs[w.rc.Intn(len(w.c.Accs))].Bech}))
		case f.Type.Kind() == reflect.Bool:
			fv.SetBool(w.rc.Chance(0.5))
		case f.Type == reflect.TypeOf(sdk.Coin{}):
			fv.Set(reflect.ValueOf(sdk.NewInt64Coin("ujkl", c05Ints[3+w.rc.Intn(5)])))
		}
	}
	return m, signer
}

// templates returns semantically valid messages for the current world.
func (w *c05World) templates() []c05Tmpl {
	c, r := w.c, w.rc
	A := func(i int) string { return c.Accs[i].Bech }
	var out []c05Tmpl
	add := func(s int, m sdk.Msg) { out = append(out, c05Tmpl{s, m}) }
	o := r.Intn(2)
	f := gen.NewFile(randBytes(r.Rng, int64(1+r.Intn(3000))), 1024)
	w.cands[string(f.Root())] = f
	add(o, &storagetypes.MsgPostFile{Creator: A(o), Merkle: f.Root(), FileSize: f.Size(), MaxProofs: int64(1 + r.Intn(3)), Note: "{}"})
	f2 := gen.NewFile(randBytes(r.Rng, int64(1+r.Intn(300))), 1024)
	add(o, &storagetypes.MsgPostFile{Creator: A(o), Merkle: f2.Root(), FileSize: f2.Size(), MaxProofs: 2, Expires: c.Height + 20000 + int64(r.Intn(1000000)), Note: "{}"})
	if r.Chance(0.5) {
		// a paid-for file whose declared size is near the int64 range (the price is affordable for a day or two)
		f3 := gen.NewFile(randBytes(r.Rng, int64(1+r.Intn(300))), 1024)
		w.cands[string(f3.Root())] = f3
		big := []int64{math.MaxInt64, math.MaxInt64/2 + 1, 1 << 62, math.MaxInt64 / 3}[r.Intn(4)]
		mp := int64(1)
		if big <= math.MaxInt64/3 {
			mp = int64(1 + r.Intn(3))
		}
		add(o, &storagetypes.MsgPostFile{Creator: A(o), Merkle: f3.Root(), FileSize: big, MaxProofs: mp, Expires: c.Height + 14_400 + int64(r.Intn(30000)), Note: "{}"})
	}
	if r.Chance(0.4) {
		// a small, provable paid-for file with an astronomically large (valid) replication count
		f4 := gen.NewFile(randBytes(r.Rng, int64(1+r.Intn(40))), 1024)
		w.cands[string(f4.Root())] = f4
		mp := []int64{1 << 31, 1 << 45, math.MaxInt64 / f4.Size(), 1 << 20}[r.Intn(4)]
		add(o, &storagetypes.MsgPostFile{Creator: A(o), Merkle: f4.Root(), FileSize: f4.Size(), MaxProofs: mp, Expires: c.Height + 14_400 + int64(r.Intn(30000)), Note: "{}"})
	}
	add(o, &storagetypes.MsgBuyStorage{Creator: A(o), ForAddress: A(r.Intn(2)), DurationDays: int64(30 + r.Intn(400)), Bytes: int64(1+r.Intn(30)) * 1_000_000_000, PaymentDenom: "ujkl", Referral: ""})
	{
		// a plan bought for an account the buyer does not control: module accounts (some hold nothing right after the
		// distribution module swept them) and an address that never appeared on chain, with and without a referrer
		mods := []string{authtypes.FeeCollectorName, storagetypes.ModuleName, storagetypes.CollateralCollectorName, "distribution", "bonded_tokens_pool", "gov", "jklmint", "rns", "oracle"}
		target := chain.ModuleAddr(mods[r.Intn(len(mods))]).String()
		if r.Chance(0.2) {
			target = sdk.AccAddress([]byte(fmt.Sprintf("c05-never-seen-%06d", r.Intn(1000000)))).String()
		}
		add(o, &storagetypes.MsgBuyStorage{Creator: A(o), ForAddress: target, DurationDays: int64(30 + r.Intn(400)), Bytes: int64(1+r.Intn(30)) * 1_000_000_000, PaymentDenom: "ujkl", Referral: []string{"", A(2 + r.Intn(3)), A(o)}[r.Intn(3)]})
	}
	if obs, err := w.Observe(); err == nil && len(obs.Gauges) > 0 {
		// the escrow account of a live gauge receives tokens the gauge does not record: as the referrer of a purchase
		// (commission), and by plain transfers in the gauge's denom and in a denom it does not hold
		g := obs.Gauges[r.Intn(len(obs.Gauges))]
		if ga, err := storagetypes.GetGaugeAccount(g); err == nil {
			add(o, &storagetypes.MsgBuyStorage{Creator: A(o), ForAddress: A(o), DurationDays: int64(30 + r.Intn(400)), Bytes: int64(1+r.Intn(30)) * 1_000_000_000, PaymentDenom: "ujkl", Referral: ga.String()})
			add(o, bankSend(c.Accs[o].Addr, ga, sdk.NewCoins(sdk.NewInt64Coin("ujkl", int64(1+r.Intn(1_000_000_000))))))
			add(o, bankSend(c.Accs[o].Addr, ga, sdk.NewCoins(sdk.NewInt64Coin("uatom", int64(1+r.Intn(1000))))))
		}
	}
	if len(w.honest) > 0 {
		h := w.honest[r.Intn(len(w.honest))]
		idx, _ := w.Challenge(A(h.p), h.w)
		if idx >= 0 && idx < h.w.F.NChunks() {
			item, hl := h.w.F.Proof(idx)
			add(h.p, &storagetypes.MsgPostProof{Creator: A(h.p), Item: item, HashList: hl, Merkle: h.w.F.Root(), Owner: h.w.OwnerAddr, Start: h.w.Start, ToProve: idx})
		}
		add(h.w.Owner, &storagetypes.MsgDeleteFile{Creator: h.w.OwnerAddr, Merkle: h.w.F.Root(), Start: h.w.Start})
		add(h.p, &storagetypes.MsgRequestAttestationForm{Creator: A(h.p), Merkle: h.w.F.Root(), Owner: h.w.OwnerAddr, Start: h.w.Start})
		add(r.Intn(6), &storagetypes.MsgRequestReportForm{Creator: A(0), Prover: A(h.p), Merkle: h.w.F.Root(), Owner: h.w.OwnerAddr, Start: h.w.Start})
		q := 2 + r.Intn(3)
		add(q, &storagetypes.MsgAttest{Creator: A(q), Prover: A(h.p), Merkle: h.w.F.Root(), Owner: h.w.OwnerAddr, Start: h.w.Start})
		add(q, &storagetypes.MsgReport{Creator: A(q), Prover: A(h.p), Merkle: h.w.F.Root(), Owner: h.w.OwnerAddr, Start: h.w.Start})
	}
	p := 2 + r.Intn(3)
	add(p, &storagetypes.MsgInitProvider{Creator: A(p), Ip: fmt.Sprintf("https://x%d.y%d.example", p, r.Intn(3)), Keybase: "k", TotalSpace: 1 << 40})
	add(p, &storagetypes.MsgSetProviderIP{Creator: A(p), Ip: "https://new.ip.example"})
	add(p, &storagetypes.MsgSetProviderKeybase{Creator: A(p), Keybase: "kb2"})
	add(p, &storagetypes.MsgSetProviderTotalSpace{Creator: A(p), Space: 1 << 41})
	add(p, &storagetypes.MsgAddClaimer{Creator: A(p), ClaimAddress: A(5)})
	add(p, &storagetypes.MsgRemoveClaimer{Creator: A(p), ClaimAddress: A(5)})
	add(p, &storagetypes.MsgShutdownProvider{Creator: A(p)})
	// rns
	u := r.Intn(6)
	nm := fmt.Sprintf("n%d%c.jkl", r.Intn(50), 'a'+rune(r.Intn(26)))
	add(u, &rnstypes.MsgRegisterName{Creator: A(u), Name: nm, Years: int64(1 + r.Intn(3)), Data: "{}", SetPrimary: r.Chance(0.5)})
	w.names = append(w.names, nm)
	add(u, &rnstypes.MsgRegister{Creator: A(u), Name: nm, Years: 1, Data: "{}"})
	add(u, &rnstypes.MsgInit{Creator: A(u)})
	if len(w.names) > 0 {
		n := w.names[r.Intn(len(w.names))]
		add(u, &rnstypes.MsgBid{Creator: A(u), Name: n, Bid: sdk.NewInt64Coin("ujkl", int64(1+r.Intn(1000000)))})
		add(u, &rnstypes.MsgCancelBid{Creator: A(u), Name: n})
		add(u, &rnstypes.MsgAcceptBid{Creator: A(u), Name: n, From: A(r.Intn(6))})
		add(u, &rnstypes.MsgList{Creator: A(u), Name: n, Price: sdk.NewInt64Coin("ujkl", int64(1+r.Intn(1000000)))})
		add(u, &rnstypes.MsgDelist{Creator: A(u), Name: n})
		add(u, &rnstypes.MsgBuy{Creator: A(u), Name: n})
		add(u, &rnstypes.MsgTransfer{Creator: A(u), Name: n, Receiver: A(r.Intn(6))})
		add(u, &rnstypes.MsgUpdate{Creator: A(u), Name: n, Data: `{"x":1}`})
		add(u, &rnstypes.MsgMakePrimary{Creator: A(u), Name: n})
		add(u, &rnstypes.MsgAddRecord{Creator: A(u), Name: n, Value: A(u), Data: "{}", Record: "sub"})
		add(u, &rnstypes.MsgDelRecord{Creator: A(u), Name: "sub." + n})
	}
	// filetree
	trk := fmt.Sprintf("trk%d", r.Intn(1000))
	ed := fmt.Sprintf(`{"%s":"k"}`, filetreekeeper.MakeEditorAddress(trk, A(u)))
	vw := fmt.Sprintf(`{"%s":"k"}`, filetreekeeper.MakeViewerAddress(trk, A(u)))
	add(u, &filetreetypes.MsgProvisionFileTree{Creator: A(u), Editors: ed, Viewers: vw, TrackingNumber: trk})
	root := filetreetypes.MerklePath("s")
	acct := hexSha(A(u))
	child := hexSha(fmt.Sprintf("child%d", r.Intn(5)))
	add(u, &filetreetypes.MsgPostFile{Creator: A(u), Account: acct, HashParent: root, HashChild: child, Contents: "{}", Viewers: vw, Editors: ed, TrackingNumber: trk})
	caddr := filetreetypes.AddToMerkle(root, child)
	w.ftAddrs = append(w.ftAddrs, root, caddr, acct)
	own := filetreekeeper.MakeOwnerAddress(caddr, acct)
	add(u, &filetreetypes.MsgAddViewers{Creator: A(u), ViewerIds: "id1,id2", ViewerKeys: "k1,k2", Address: caddr, FileOwner: own})
	add(u, &filetreetypes.MsgRemoveViewers{Creator: A(u), ViewerIds: "id1", Address: caddr, FileOwner: own})
	add(u, &filetreetypes.MsgResetViewers{Creator: A(u), Address: caddr, FileOwner: own})
	add(u, &filetreetypes.MsgAddEditors{Creator: A(u), EditorIds: "id1,id2", EditorKeys: "k1,k2", Address: caddr, FileOwner: own})
	add(u, &filetreetypes.MsgRemoveEditors{Creator: A(u), EditorIds: "id1", Address: caddr, FileOwner: own})
	add(u, &filetreetypes.MsgResetEditors{Creator: A(u), Address: caddr, FileOwner: own})
	add(u, &filetreetypes.MsgChangeOwner{Creator: A(u), Address: caddr, FileOwner: acct, NewOwner: hexSha(A(r.Intn(6)))})
	add(u, &filetreetypes.MsgDeleteFile{Creator: A(u), HashPath: caddr, Account: acct})
	add(u, &filetreetypes.MsgPostKey{Creator: A(u), Key: "pubkey"})
	// oracle
	fn := fmt.Sprintf("feed%d", r.Intn(4))
	if r.Chance(0.3) {
		fn = "jklprice"
	}
	add(u, &oracletypes.MsgCreateFeed{Creator: A(u), Name: fn})
	add(u, &oracletypes.MsgUpdateFeed{Creator: A(u), Name: fn, Data: []string{`{"price":"0.2","24h_change":"1"}`, `{"price":"0","24h_change":"1"}`, `{"price":"-3","24h_change":"1"}`, `{"price":"1e-18"}`, `{"price":"99999999999999999999"}`, "junk"}[r.Intn(6)]})
	// notifications
	add(u, &notiftypes.MsgCreateNotification{Creator: A(u), To: A(r.Intn(6)), Contents: `{"m":1}`, PrivateContents: []byte("p")})
	add(u, &notiftypes.MsgDeleteNotification{Creator: A(u), From: A(r.Intn(6)), Time: c.Time.UnixMicro()})
	add(u, &notiftypes.MsgBlockSenders{Creator: A(u), ToBlock: []string{A(r.Intn(6))}})
	return out
}

func hexSha(s string) string { return filetreetypes.AddToMerkle("", s) }

func runC05(rc *RunCtx) {
	W := int64(2 + rc.Intn(4))
	C := int64(2 + rc.Intn(4))
	sp := storageParams(W, C, 1024)
	sp.CollateralPrice = 1000
	sp.AttestFormSize = int64(1 + rc.Intn(2))
	sp.AttestMinToPass = 1
	fund := sdk.NewCoins(sdk.NewInt64Coin("ujkl", 10_000_000_000_000_000), sdk.NewInt64Coin("uatom", 1_000_000_000_000))
	gov := rc.Chance(0.45)
	cfg := chain.Config{Seed: rc.Seed, NAcc: 6, Storage: sp, Fund: fund}
	if gov {
		cfg.GovVotingSeconds = 10
	}
	c, err := chain.New(cfg)
	if err != nil {
		rc.Abort("init: " + err.Error())
		return
	}
	defer c.Close()
	w := &c05World{SW: &SW{rc: rc, c: c}, rc: rc, cands: map[string]*gen.File{}}
	w.types = c11FromRegistry(app.MakeEncodingConfig().InterfaceRegistry)
	w.typeIdx = rc.Intn(len(w.types))
	dts := []time.Duration{6 * time.Second, time.Hour, 24 * time.Hour, 40 * 24 * time.Hour, 400 * 24 * time.Hour, 0}
	rewardBlocks := 0
	block := func(dt time.Duration) bool {
		if c.InBlock {
			if _, err := c.EndBlock(); err != nil {
				pe := err.(*chain.PanicError)
				rc.Fail("C05/endblock-panic/"+c05Norm(pe.Value), "%s: %s\n%s", pe.Where, pe.Value, firstAppFrames(pe.Stack))
				return false
			}
			if _, err := c.Commit(); err != nil {
				pe := err.(*chain.PanicError)
				rc.Fail("C05/commit-panic/"+c05Norm(pe.Value), "%s: %s\n%s", pe.Where, pe.Value, firstAppFrames(pe.Stack))
				return false
			}
		}
		var provers int
		if o, err := w.Observe(); err == nil {
			for _, f := range o.Files {
				provers += len(f.Proofs)
			}
		}
		_, err := c.BeginBlock(dt)
		rc.Eval(1)
		if err != nil {
			pe := err.(*chain.PanicError)
			rc.Fail("C05/beginblock-panic/"+c05Norm(pe.Value), "%s: %s\n%s", pe.Where, pe.Value, firstAppFrames(pe.Stack))
			return false
		}
		if c.Height%C == 0 {
			rewardBlocks++
			rc.Count("reward_blocks", 1)
			if provers > 0 {
				rc.Count("reward_blocks_with_provers", 1)
				for _, s := range w.pending {
					rc.NonTrivial(s)
				}
				w.pending = nil
			}
		}
		return true
	}
	if !block(6 * time.Second) {
		return
	}
	// some providers always spell their own address in upper case in their proofs (valid bech32, same signer)
	upper := map[int]bool{}
	for p := 2; p <= 4; p++ {
		upper[p] = rc.Chance(0.25)
	}
	prove := func(p int, wf *WFile) ProofResult {
		if upper[p] {
			rc.Count("proofs_with_upper_case_creator", 1)
			return w.ProveHonestUpper(p, wf)
		}
		return w.ProveHonest(p, wf)
	}
	// ---- scaffold
	for o := 0; o < 2; o++ {
		w.BuyPlan(o, o, int64(20+rc.Intn(50))*1_000_000_000, int64(30+rc.Intn(300)), "")
	}
	for p := 2; p <= 4; p++ {
		w.InitProvider(p, fmt.Sprintf("https://n%d.d%d.example", p, p))
	}
	for i := 0; i < 2+rc.Intn(2); i++ {
		f := gen.NewFile(randBytes(rc.Rng, int64(1+rc.Intn(5000))), 1024)
		wf, r := w.PostFile(i%2, f, int64(1+rc.Intn(3)), 0, -1)
		if r.OK() {
			for p := 2; p <= 4; p++ {
				if rc.Chance(0.7) {
					if prove(p, wf).Success {
						w.honest = append(w.honest, struct {
							p int
							w *WFile
						}{p, wf})
					}
				}
			}
		}
	}
	c.DeliverAs(5, &rnstypes.MsgRegisterName{Creator: c.Accs[5].Bech, Name: "base.jkl", Years: 1, Data: "{}"})
	w.names = append(w.names, "base.jkl")
	if !block(time.Hour) {
		return
	}
	honestRound := func() {
		kept := w.honest[:0]
		for _, h := range w.honest {
			if rc.Chance(0.06) {
				// this prover goes silent for good: the next reward blocks have to drop it
				rc.Count("provers_gone_silent", 1)
				continue
			}
			prove(h.p, h.w)
			kept = append(kept, h)
		}
		w.honest = kept
	}
	// ---- bursts
	nBursts := 4 + rc.Intn(4)
	for b := 0; b < nBursts; b++ {
		for g := 0; gov && g < 1+rc.Intn(3); g++ {
			// a governance parameter-change proposal with a boundary value (real MsgSubmitProposal + MsgVote; the
			// proposal transactions pass stateless validation, the module's parameter validators decide at execution)
			pk := c05GovParams[rc.Intn(len(c05GovParams))]
			val := pk[2+rc.Intn(len(pk)-2)]
			err := c.ParamChange(pk[0], pk[1], val)
			rc.Count("gov_proposals", 1)
			rc.Logf("h=%d governance %s/%s := %s -> %v", c.Height, pk[0], pk[1], val, err)
			if pe, ok := err.(*chain.PanicError); ok {
				rc.Fail("C05/"+strings.ToLower(strings.SplitN(pe.Where, "(", 2)[0])+"-panic/"+c05Norm(pe.Value), "after governance change %s/%s := %s: %s: %s\n%s", pk[0], pk[1], val, pe.Where, pe.Value, firstAppFrames(pe.Stack))
				return
			}
			if err == nil {
				rc.Count("gov_proposals_applied", 1)
				w.pending = append(w.pending, "gov/"+pk[0]+"/"+pk[1]+"/"+val)
				// the reward interval may have changed
				C = c.App.StorageKeeper.GetParams(c.Ctx()).CheckWindow
			}
			if c.Dead {
				return
			}
		}
		nTx := 8 + rc.Intn(9)
		tmpls := w.templates()
		if b == 0 || rc.Chance(0.4) {
			// one pass of the unmutated templates in their logical order, so that dependent handlers get past their pre-conditions
			for _, t := range tmpls {
				if _, isDel := t.msg.(*storagetypes.MsgDeleteFile); isDel {
					continue
				}
				if _, isShut := t.msg.(*storagetypes.MsgShutdownProvider); isShut {
					continue
				}
				r := c.DeliverAs(t.signer, t.msg)
				url := sdk.MsgTypeURL(t.msg)
				rc.Count("valid_txs", 1)
				rc.Count("type:"+url[strings.Index(url, ".")+1:], 1)
				if r.OK() {
					rc.Count("ok:"+url[strings.Index(url, ".")+1:], 1)
					if pf, ok := t.msg.(*storagetypes.MsgPostFile); ok {
						if f, ok := w.cands[string(pf.Merkle)]; ok {
							w.Files = append(w.Files, &WFile{F: f, Owner: t.signer, OwnerAddr: pf.Creator, Start: c.Height, MaxProofs: pf.MaxProofs, Expires: pf.Expires, Size: pf.FileSize})
						}
					}
				}
			}
			tmpls = w.templates()
		}
		for i := 0; i < nTx; i++ {
			var m sdk.Msg
			var signer int
			desc := ""
			if rc.Chance(0.35) {
				url := w.types[w.typeIdx%len(w.types)]
				w.typeIdx++
				m, signer = w.randomOfType(url)
				desc = "random"
			} else {
				t := tmpls[rc.Intn(len(tmpls))]
				m, signer = t.msg, t.signer
				if rc.Chance(0.7) {
					desc = w.mutate(m)
					if rc.Chance(0.3) {
						desc += "+" + w.mutate(m)
					}
				} else {
					desc = "valid"
				}
			}
			if m == nil {
				continue
			}
			if rc.Chance(0.1) {
				// the creator spells its own address in upper case (valid bech32, same signer)
				if f := reflect.ValueOf(m).Elem().FieldByName("Creator"); f.IsValid() && f.Kind() == reflect.String {
					if _, err := sdk.AccAddressFromBech32(f.String()); err == nil {
						f.SetString(strings.ToUpper(f.String()))
						desc += "+UPPER-creator"
					}
				}
			}
			url := sdk.MsgTypeURL(m)
			short := url[strings.Index(url, ".")+1:]
			var vErr error
			if safeCall(func() { vErr = m.ValidateBasic() }) {
				rc.Count("validatebasic_panics", 1)
				continue
			}
			if vErr != nil {
				rc.Count("rejected_by_validatebasic", 1)
				continue
			}
			// the signer is the creator
			func() {
				defer func() { recover() }()
				ss := m.GetSigners()
				if len(ss) == 1 {
					for i, a := range c.Accs {
						if a.Addr.Equals(ss[0]) {
							signer = i
						}
					}
				}
			}()
			r := c.DeliverAs(signer, m)
			rc.Count("valid_txs", 1)
			rc.Count("type:"+short, 1)
			if r.OK() {
				rc.Count("ok:"+short, 1)
				if desc != "valid" {
					w.pending = append(w.pending, short+"/"+desc)
				}
				if pf, ok := m.(*storagetypes.MsgPostFile); ok {
					if f, ok := w.cands[string(pf.Merkle)]; ok {
						w.Files = append(w.Files, &WFile{F: f, Owner: signer, OwnerAddr: pf.Creator, Start: c.Height, MaxProofs: pf.MaxProofs, Expires: pf.Expires, Size: pf.FileSize})
					}
				}
			}
			rc.Logf("h=%d %s [%s] signer=acc%d -> code=%d %s", c.Height, short, desc, signer, r.Code, failLog(r))
			if c.Dead {
				return
			}
		}
		// newly posted honest files get provers
		for _, wf := range w.Files {
			if rc.Chance(0.3) {
				p := 2 + rc.Intn(3)
				if prove(p, wf).Success {
					w.honest = append(w.honest, struct {
						p int
						w *WFile
					}{p, wf})
				}
			}
		}
		target := rewardBlocks + 2
		for i := 0; rewardBlocks < target && i < 20; i++ {
			honestRound()
			dt := dts[rc.Intn(3)]
			if b%2 == 1 && rc.Chance(0.3) {
				dt = dts[3+rc.Intn(3)]
			}
			if !block(dt) {
				return
			}
		}
	}
	// past every gauge end
	for i := 0; i < int(2*C)+2; i++ {
		if !block(600 * 24 * time.Hour) {
			return
		}
	}
	rc.Sample(map[string]interface{}{"W": W, "C": C, "bursts": nBursts, "trace_tail": tail(rc.Trace(), 8)})
}

func firstAppFrames(stack string) string {
	var out []string
	lines := strings.Split(stack, "\n")
	for i := 0; i+1 < len(lines) && len(out) < 6; i++ {
		if strings.Contains(lines[i], "canine-chain") || strings.Contains(lines[i], "cosmos-sdk/types") {
			out = append(out, strings.TrimSpace(lines[i])+" @ "+strings.TrimSpace(lines[i+1]))
		}
	}
	return strings.Join(out, "\n")
}
