package props

import (
	"fmt"
	"math/big"
	"sort"
	"strings"

	"github.com/cosmos/cosmos-sdk/codec"
	sdk "github.com/cosmos/cosmos-sdk/types"
	"github.com/cosmos/cosmos-sdk/types/query"

	"jkverif/chain"

	jtypes "github.com/jackalLabs/canine-chain/v4/types"
	rnskeeper "github.com/jackalLabs/canine-chain/v4/x/rns/keeper"
	rnstypes "github.com/jackalLabs/canine-chain/v4/x/rns/types"
)

// The "rns world": a chain plus the reference model of DESIGN.md Appendix A.3
// (names, listings, bids) shared by the monitors of C08, C09 and C16.
//
// The model is a transition-rule checker. Its state is
//   - the last observed name / listing / bid records and balances (what the
//     previous step left behind, read through the module's gRPC queries),
//   - an escrow ledger: everything every (bidder,name) moved into the module
//     account and did not get back (kept by the model alone, from balance
//     deltas; this is what exposes an overwritten bid),
//   - the list of previous owners of every name (generator roles).
//
// After EVERY delivered message the new observation is judged against the only
// changes the property statements permit for that message and signer; then the
// observation is adopted, so that one defect does not cascade into unrelated
// follow-up reports. Every clause belongs to exactly one property; a monitor
// reports only the clauses of its own property and counts the others as
// "foreign/<sig>".

const rnsYearBlocks = 5484530

const (
	rnsDenomA = "ujkl"
	rnsDenomB = "uatom"
	rnsDenomC = "ibc/awei"
)

type rwRec struct{ Name, Value, Data string }

type rwName struct {
	Owner   string
	Expires int64
	Locked  int64
	Data    string
	Records []rwRec
}

func (a *rwName) sameRecords(b *rwName) bool {
	if len(a.Records) != len(b.Records) {
		return false
	}
	for i := range a.Records {
		if a.Records[i] != b.Records[i] {
			return false
		}
	}
	return true
}

func (a *rwName) equal(b *rwName) bool {
	if a == nil || b == nil {
		return a == b
	}
	return a.Owner == b.Owner && a.Expires == b.Expires && a.Locked == b.Locked && a.Data == b.Data && a.sameRecords(b)
}

func (a *rwName) String() string {
	if a == nil {
		return "<absent>"
	}
	return fmt.Sprintf("{owner=%s expires=%d locked=%d data=%q records=%d}", rnsShort(a.Owner), a.Expires, a.Locked, a.Data, len(a.Records))
}

// live is the liveness test of Appendix A.3: registered and h <= expires.
func (a *rwName) live(h int64) bool { return a != nil && h <= a.Expires }

type rwSale struct {
	Creator  string
	PriceStr string
	Price    sdk.Coin
	Parsed   bool
}

type rwBid struct {
	Bidder, Name, PriceStr string
	Price                  sdk.Coins
	Parsed                 bool
}

type rwState struct {
	Names map[string]*rwName
	Sales map[string]rwSale
	Bids  map[string]rwBid           // key bidder|name
	Owned map[string]map[string]bool // ListOwnedNames per harness account
	Bal   chain.Balances
}

func rnsBidKey(bidder, name string) string { return bidder + "|" + name }

type RW struct {
	rc     *RunCtx
	c      *chain.Chain
	st     *rwState
	esc    map[string]sdk.Coins // model escrow ledger per bidder|name (net coins moved into the module for that bid)
	escN   map[string]int       // number of accepted bid messages since the last cancel/accept of that key
	escL   map[string]sdk.Coin  // last accepted bid of that key
	prev   map[string][]string  // previous owners per name, most recent last
	mod    string
	pol    string
	seen   map[string]bool
	line   []string // short step log (sample)
	who    map[string]string
	pgTick int
	// per listed name: the listing as its owner created it
	consent map[string]rwSale
	// the message being judged was sent together with a message bound to fail (rolled-back transaction)
	forcedFailure bool
}

// paging: a client paging through the listings this property is about sees what the one-shot listings show (paging.go)
func (w *RW) paging() {
	w.pgTick++
	mk := func(rpc string, req func() codec.ProtoMarshaler, resp codec.ProtoMarshaler) listQuery {
		return listQuery{Path: "/canine_chain.rns.Query/" + rpc, Req: req, Resp: resp}
	}
	var qs []listQuery
	switch w.rc.Prop {
	case "C09":
		qs = append(qs, mk("AllBids", func() codec.ProtoMarshaler { return &rnstypes.QueryAllBids{} }, &rnstypes.QueryAllBidsResponse{}))
	case "C08":
		qs = append(qs, mk("AllForSale", func() codec.ProtoMarshaler { return &rnstypes.QueryAllForSale{} }, &rnstypes.QueryAllForSaleResponse{}),
			mk("AllNames", func() codec.ProtoMarshaler { return &rnstypes.QueryAllNames{} }, &rnstypes.QueryAllNamesResponse{}))
	case "C16":
		qs = append(qs, mk("AllNames", func() codec.ProtoMarshaler { return &rnstypes.QueryAllNames{} }, &rnstypes.QueryAllNamesResponse{}))
	}
	checkPaging(w.rc, w.c, qs, w.pgTick)
}

func rnsShort(a string) string {
	if len(a) > 12 {
		return a[:7] + ".." + a[len(a)-4:]
	}
	return a
}

func rnsPg() *query.PageRequest { return &query.PageRequest{Limit: 10000} }

func NewRW(rc *RunCtx, c *chain.Chain) (*RW, error) {
	pol, err := jtypes.GetPOLAccount()
	if err != nil {
		return nil, err
	}
	w := &RW{rc: rc, c: c, esc: map[string]sdk.Coins{}, escN: map[string]int{}, escL: map[string]sdk.Coin{}, prev: map[string][]string{},
		mod: chain.ModuleAddr(rnstypes.ModuleName).String(), pol: pol.String(), seen: map[string]bool{}, who: map[string]string{}, consent: map[string]rwSale{}}
	for i, a := range c.Accs {
		w.who[a.Bech] = fmt.Sprintf("a%d", i)
	}
	w.who[w.mod] = "rns-module"
	w.who[w.pol] = "POL"
	st, err := w.observe()
	if err != nil {
		return nil, err
	}
	w.st = st
	return w, nil
}

func (w *RW) name(a string) string {
	if n, ok := w.who[a]; ok {
		return n
	}
	return rnsShort(a)
}

func (w *RW) q(path string, req, resp codec.ProtoMarshaler) error {
	return w.c.GRPC("/canine_chain.rns.Query/"+path, req, resp)
}

func rwFromProto(n rnstypes.Names) *rwName {
	r := &rwName{Owner: n.Value, Expires: n.Expires, Locked: n.Locked, Data: n.Data}
	for _, s := range n.Subdomains {
		if s != nil {
			r.Records = append(r.Records, rwRec{Name: s.Name, Value: s.Value, Data: s.Data})
		}
	}
	return r
}

// observe reads the module state through the queries named in the properties:
// Name, ListOwnedNames, ForSale, AllBids (AllNames / AllForSale only discover
// which keys exist) and the bank balances.
func (w *RW) observe() (*rwState, error) {
	st := &rwState{Names: map[string]*rwName{}, Sales: map[string]rwSale{}, Bids: map[string]rwBid{}, Owned: map[string]map[string]bool{}}
	var an rnstypes.QueryAllNamesResponse
	if err := w.q("AllNames", &rnstypes.QueryAllNames{Pagination: rnsPg()}, &an); err != nil {
		return nil, fmt.Errorf("AllNames: %w", err)
	}
	for _, n := range an.Name {
		full := n.Name + "." + n.Tld
		var one rnstypes.QueryNameResponse
		if err := w.q("Name", &rnstypes.QueryName{Name: full}, &one); err != nil {
			return nil, fmt.Errorf("Name(%s): %w", full, err)
		}
		st.Names[full] = rwFromProto(one.Name)
		if !st.Names[full].equal(rwFromProto(n)) {
			return nil, fmt.Errorf("Name(%s) and AllNames disagree", full)
		}
	}
	var as rnstypes.QueryAllForSaleResponse
	if err := w.q("AllForSale", &rnstypes.QueryAllForSale{Pagination: rnsPg()}, &as); err != nil {
		return nil, fmt.Errorf("AllForSale: %w", err)
	}
	for _, s := range as.ForSale {
		var one rnstypes.QueryForSaleResponse
		if err := w.q("ForSale", &rnstypes.QueryForSale{Name: s.Name}, &one); err != nil {
			return nil, fmt.Errorf("ForSale(%s): %w", s.Name, err)
		}
		r := rwSale{Creator: one.ForSale.Owner, PriceStr: one.ForSale.Price}
		if p, err := sdk.ParseCoinNormalized(one.ForSale.Price); err == nil {
			r.Price, r.Parsed = p, true
		}
		st.Sales[rnsCanon(s.Name)] = r
	}
	var ab rnstypes.QueryAllBidsResponse
	if err := w.q("AllBids", &rnstypes.QueryAllBids{Pagination: rnsPg()}, &ab); err != nil {
		return nil, fmt.Errorf("AllBids: %w", err)
	}
	for _, b := range ab.Bids {
		r := rwBid{Bidder: b.Bidder, Name: rnsCanon(b.Name), PriceStr: b.Price}
		if p, err := sdk.ParseCoinsNormalized(b.Price); err == nil {
			r.Price, r.Parsed = p, true
		}
		st.Bids[rnsBidKey(b.Bidder, rnsCanon(b.Name))] = r
	}
	for _, a := range w.c.Accs {
		var lo rnstypes.QueryListOwnedNamesResponse
		if err := w.q("ListOwnedNames", &rnstypes.QueryListOwnedNames{Address: a.Bech}, &lo); err != nil {
			return nil, fmt.Errorf("ListOwnedNames: %w", err)
		}
		m := map[string]bool{}
		for _, n := range lo.Names {
			m[n.Name+"."+n.Tld] = true
		}
		st.Owned[a.Bech] = m
	}
	st.Bal = w.c.Snapshot()
	return st, nil
}

// fail reports a clause of property `prop`; only the running monitor's own
// clauses become findings, once per signature and case.
func (w *RW) fail(prop, sig, f string, a ...interface{}) {
	full := prop + "/" + sig
	if prop != w.rc.Prop {
		w.rc.Count("foreign/"+full, 1)
		w.rc.Logf("(foreign) %s: %s", full, fmt.Sprintf(f, a...))
		return
	}
	w.rc.Count("finding/"+full, 1)
	if w.seen[full] {
		w.rc.Logf("(repeat) %s: %s", full, fmt.Sprintf(f, a...))
		return
	}
	w.seen[full] = true
	w.rc.Fail(full, f, a...)
}

func (w *RW) anomaly(sig, f string, a ...interface{}) {
	w.rc.Count("anomaly/"+sig, 1)
	w.rc.Logf("(anomaly, outside the statements) %s: %s", sig, fmt.Sprintf(f, a...))
}

// ---------------------------------------------------------------- messages

type rnsMsgInfo struct {
	Kind   string // Register, RegisterName, Update, MakePrimary, Bid, AcceptBid, CancelBid, List, Buy, Delist, Transfer, AddRecord, DelRecord, Init
	Target string // canonical name the message is about ("" for Init)
	Years  int64
	To     string   // Transfer receiver / AcceptBid bidder
	Coin   sdk.Coin // Bid / List amount
}

// rnsCanon mirrors the chain's input normalisation of name strings: lower case, the last three characters are
// the TLD when they spell one, and the single character in front of them is the separator whatever it is
// (so "test-jkl", "test_jkl" and "testxjkl" all denote test.jkl, exactly as the handlers parse them).
func rnsCanon(n string) string {
	n = strings.ToLower(n)
	for _, tld := range []string{"ibc", "jkl"} {
		if len(n) > len(tld)+1 && strings.HasSuffix(n, tld) {
			return n[:len(n)-len(tld)-1] + "." + tld
		}
	}
	return n
}

func rnsInfo(msg sdk.Msg) rnsMsgInfo {
	switch m := msg.(type) {
	case *rnstypes.MsgRegister:
		return rnsMsgInfo{Kind: "Register", Target: strings.ReplaceAll(rnsCanon(m.Name), " ", ""), Years: m.Years}
	case *rnstypes.MsgRegisterName:
		return rnsMsgInfo{Kind: "RegisterName", Target: strings.ReplaceAll(rnsCanon(m.Name), " ", ""), Years: m.Years}
	case *rnstypes.MsgUpdate:
		return rnsMsgInfo{Kind: "Update", Target: rnsCanon(m.Name)}
	case *rnstypes.MsgMakePrimary:
		return rnsMsgInfo{Kind: "MakePrimary", Target: rnsCanon(m.Name)}
	case *rnstypes.MsgBid:
		return rnsMsgInfo{Kind: "Bid", Target: rnsCanon(m.Name), Coin: m.Bid}
	case *rnstypes.MsgAcceptBid:
		return rnsMsgInfo{Kind: "AcceptBid", Target: rnsCanon(m.Name), To: m.From}
	case *rnstypes.MsgCancelBid:
		return rnsMsgInfo{Kind: "CancelBid", Target: rnsCanon(m.Name)}
	case *rnstypes.MsgList:
		return rnsMsgInfo{Kind: "List", Target: rnsCanon(m.Name), Coin: m.Price}
	case *rnstypes.MsgBuy:
		return rnsMsgInfo{Kind: "Buy", Target: rnsCanon(m.Name)}
	case *rnstypes.MsgDelist:
		return rnsMsgInfo{Kind: "Delist", Target: rnsCanon(m.Name)}
	case *rnstypes.MsgTransfer:
		return rnsMsgInfo{Kind: "Transfer", Target: rnsCanon(m.Name), To: m.Receiver}
	case *rnstypes.MsgAddRecord:
		return rnsMsgInfo{Kind: "AddRecord", Target: rnsCanon(m.Name)}
	case *rnstypes.MsgDelRecord:
		// "record.label.tld" names a record of label.tld
		t := rnsCanon(m.Name)
		if strings.Count(t, ".") >= 2 {
			t = t[strings.Index(t, ".")+1:]
		}
		return rnsMsgInfo{Kind: "DelRecord", Target: t}
	case *rnstypes.MsgInit:
		return rnsMsgInfo{Kind: "Init"}
	}
	return rnsMsgInfo{Kind: fmt.Sprintf("%T", msg)}
}

func rnsDescribe(msg sdk.Msg) string {
	switch m := msg.(type) {
	case *rnstypes.MsgRegister:
		return fmt.Sprintf("Register(deprecated) %q years=%d", m.Name, m.Years)
	case *rnstypes.MsgRegisterName:
		return fmt.Sprintf("RegisterName %q years=%d", m.Name, m.Years)
	case *rnstypes.MsgUpdate:
		return fmt.Sprintf("Update %q data=%q", m.Name, m.Data)
	case *rnstypes.MsgMakePrimary:
		return fmt.Sprintf("MakePrimary %q", m.Name)
	case *rnstypes.MsgBid:
		return fmt.Sprintf("Bid %q %s", m.Name, m.Bid)
	case *rnstypes.MsgAcceptBid:
		return fmt.Sprintf("AcceptBid %q from=%s", m.Name, rnsShort(m.From))
	case *rnstypes.MsgCancelBid:
		return fmt.Sprintf("CancelBid %q", m.Name)
	case *rnstypes.MsgList:
		return fmt.Sprintf("List %q price=%s", m.Name, m.Price)
	case *rnstypes.MsgBuy:
		return fmt.Sprintf("Buy %q", m.Name)
	case *rnstypes.MsgDelist:
		return fmt.Sprintf("Delist %q", m.Name)
	case *rnstypes.MsgTransfer:
		return fmt.Sprintf("Transfer %q to=%s", m.Name, rnsShort(m.Receiver))
	case *rnstypes.MsgAddRecord:
		return fmt.Sprintf("AddRecord %q record=%q value=%q", m.Name, m.Record, m.Value)
	case *rnstypes.MsgDelRecord:
		return fmt.Sprintf("DelRecord %q", m.Name)
	case *rnstypes.MsgInit:
		return "Init"
	}
	return fmt.Sprintf("%T", msg)
}

// genericProp says which property owns the clauses "a rejected message changes
// nothing" and "nobody else's balance moves" for a message kind.
func rnsGenericProp(kind string) string {
	switch kind {
	case "Register", "RegisterName":
		return "C16"
	case "Bid", "CancelBid", "AcceptBid":
		return "C09"
	}
	return "C08"
}

// ---------------------------------------------------------------- stepping

// Block closes the open block (if any) and opens the next one; the rns state
// and the escrow must not move outside messages.
func (w *RW) Block() bool {
	pre := w.st
	if _, err := w.c.NextBlock(6e9); err != nil {
		if pe, ok := err.(*chain.PanicError); ok {
			w.rc.Abort("BeginBlock panic (C05 territory): " + pe.Value)
		} else {
			w.rc.Abort(err.Error())
		}
		return false
	}
	post, err := w.observe()
	if err != nil {
		w.rc.Abort("observe: " + err.Error())
		return false
	}
	if pre != nil {
		for _, k := range rnsUnionNames(pre, post) {
			if !pre.Names[k].equal(post.Names[k]) {
				w.fail("C08", "name-changed-outside-any-message", "h=%d: %s was %v, is %v after EndBlock/BeginBlock", w.c.Height, k, pre.Names[k], post.Names[k])
			}
		}
		w.checkEscrowInvariant(post, "after BeginBlock")
	}
	w.st = post
	w.paging()
	return true
}

func rnsUnionNames(a, b *rwState) []string {
	m := map[string]bool{}
	for k := range a.Names {
		m[k] = true
	}
	for k := range b.Names {
		m[k] = true
	}
	out := make([]string, 0, len(m))
	for k := range m {
		out = append(out, k)
	}
	sort.Strings(out)
	return out
}

// checkEscrowInvariant: balance of the rns module account, per denomination,
// equals the sum of the parsed prices of all open bids (C09, first sentence).
func (w *RW) checkEscrowInvariant(st *rwState, when string) {
	sum := sdk.NewCoins()
	keys := make([]string, 0, len(st.Bids))
	for k := range st.Bids {
		keys = append(keys, k)
	}
	sort.Strings(keys)
	for _, k := range keys {
		if st.Bids[k].Parsed {
			sum = sum.Add(st.Bids[k].Price...)
		}
	}
	bal := st.Bal[w.mod]
	w.rc.Eval(1)
	if !rnsCoinsEq(bal, sum) {
		var open []string
		for _, k := range keys {
			open = append(open, fmt.Sprintf("%s on %s = %s (model escrow %s)", w.name(st.Bids[k].Bidder), st.Bids[k].Name, st.Bids[k].PriceStr, w.esc[k]))
		}
		w.fail("C09", "module-balance-differs-from-open-bids", "h=%d %s: rns module account holds [%s], open bids sum to [%s]; open bids: %v", w.c.Height, when, bal, sum, open)
	}
}

// Do delivers one message signed by account i and judges its effects.
func (w *RW) Do(i int, msg sdk.Msg) (chain.TxResult, bool) {
	pre := w.st
	h := w.c.Height
	// a bidder may spell its own address in upper case (valid bech32, same signer, same account): bids are escrowed
	// per account, whatever the spelling
	if b, ok := msg.(*rnstypes.MsgBid); ok && w.rc.Chance(0.2) {
		b.Creator = strings.ToUpper(b.Creator)
	}
	var res chain.TxResult
	if w.rc.Chance(0.05) {
		// the message travels in one transaction with a second message of the same signer that is bound to fail
		// (cancelling a bid that was never placed): the whole transaction is refused and nothing of the first
		// message may remain, whatever it would have done on its own
		w.forcedFailure = true
		res = w.c.DeliverAs(i, msg, &rnstypes.MsgCancelBid{Creator: w.c.Accs[i].Bech, Name: "never-bid-on-" + fmt.Sprint(h) + ".jkl"})
		w.rc.Count("messages_in_a_transaction_that_rolls_back", 1)
		if res.OK() {
			// not demanded by any statement: a chain that treats such a cancel as a no-op is judged on the first message alone
			w.rc.Count("rollback_transactions_that_went_through", 1)
		}
	} else {
		res = w.c.DeliverAs(i, msg)
	}
	post, err := w.observe()
	if err != nil {
		w.rc.Abort("observe: " + err.Error())
		return res, false
	}
	out := "ok"
	if !res.OK() {
		out = fmt.Sprintf("rejected(%s/%d: %s)", res.Codespace, res.Code, rnsFirstLine(res.Log))
	}
	d := chain.Diff(pre.Bal, post.Bal)
	l := fmt.Sprintf("h=%d a%d %s -> %s", h, i, rnsDescribe(msg), out)
	if ds := w.deltaString(d); ds != "" {
		l += " | balances: " + ds
	}
	w.rc.Logf("%s", l)
	if len(w.line) < 14 {
		w.line = append(w.line, l)
	}
	w.judge(i, msg, res, pre, post, d, h)
	w.forcedFailure = false
	w.st = post
	return res, true
}

func rnsFirstLine(s string) string {
	if i := strings.Index(s, "\n"); i >= 0 {
		s = s[:i]
	}
	if len(s) > 110 {
		s = s[:110] + "..."
	}
	return s
}

func (w *RW) deltaString(d chain.Delta) string {
	var parts []string
	for _, a := range d.Accounts() {
		var dn []string
		for x := range d[a] {
			dn = append(dn, x)
		}
		sort.Strings(dn)
		for _, x := range dn {
			v := d[a][x]
			s := v.String()
			if v.IsPositive() {
				s = "+" + s
			}
			parts = append(parts, fmt.Sprintf("%s %s%s", w.name(a), s, x))
		}
	}
	return strings.Join(parts, ", ")
}

// onlyChanged reports the accounts whose balance moved although they are not in `allowed`.
func (w *RW) othersChanged(d chain.Delta, allowed ...string) []string {
	ok := map[string]bool{}
	for _, a := range allowed {
		ok[a] = true
	}
	var out []string
	for _, a := range d.Accounts() {
		if !ok[a] {
			out = append(out, w.name(a))
		}
	}
	return out
}

func rnsDeltaCoins(d chain.Delta, addr string) (pos sdk.Coins, neg sdk.Coins) {
	pos, neg = sdk.NewCoins(), sdk.NewCoins()
	for dn, v := range d[addr] {
		if v.IsPositive() {
			pos = pos.Add(sdk.NewCoin(dn, v))
		} else if v.IsNegative() {
			neg = neg.Add(sdk.NewCoin(dn, v.Neg()))
		}
	}
	return
}

// deltaIs: account moved by exactly +coins (sign=+1) or -coins (sign=-1) and by nothing else.
func rnsDeltaIs(d chain.Delta, addr string, coins sdk.Coins, sign int) bool {
	pos, neg := rnsDeltaCoins(d, addr)
	if sign > 0 {
		return neg.IsZero() && rnsCoinsEq(pos, coins)
	}
	return pos.IsZero() && rnsCoinsEq(neg, coins)
}

func (w *RW) role(signer string, target string, pre *rwState) string {
	P := pre.Names[target]
	if P != nil && P.Owner == signer {
		return "owner"
	}
	if s, ok := pre.Sales[target]; ok && s.Creator == signer {
		return "stale-lister"
	}
	for _, p := range w.prev[target] {
		if p == signer {
			return "prev-owner"
		}
	}
	return "stranger"
}

func rnsStatus(P *rwName, h int64) string {
	switch {
	case P == nil:
		return "absent"
	case h < P.Expires:
		return "live"
	case h == P.Expires:
		return "live-at-expiry-height"
	default:
		return "expired"
	}
}

func rnsListingState(pre *rwState, target string) string {
	s, ok := pre.Sales[target]
	if !ok {
		return "unlisted"
	}
	if P := pre.Names[target]; P != nil && P.Owner == s.Creator {
		return "listed-by-owner"
	}
	return "listing-stale"
}

func (w *RW) judge(i int, msg sdk.Msg, res chain.TxResult, pre, post *rwState, d chain.Delta, h int64) {
	signer := w.c.Accs[i].Bech
	ok := res.OK()
	in := rnsInfo(msg)
	gp := rnsGenericProp(in.Kind)
	w.rc.Eval(1)
	w.rc.Count("msg/"+in.Kind, 1)
	if ok {
		w.rc.Count("msg-ok/"+in.Kind, 1)
	}
	P := pre.Names[in.Target]
	outcome := "rejected"
	if ok {
		outcome = "ok"
	}

	// ---- non-trivial situations
	switch w.rc.Prop {
	case "C08":
		if in.Kind != "Init" && P != nil {
			w.rc.NonTrivial(fmt.Sprintf("%s/%s/%s/%s/%s", in.Kind, w.role(signer, in.Target, pre), rnsStatus(P, h), rnsListingState(pre, in.Target), outcome))
		}
	case "C09":
		switch in.Kind {
		case "Bid":
			k := rnsBidKey(signer, in.Target)
			w.rc.NonTrivial(fmt.Sprintf("Bid/prior=%s/%s/%s/%s", rnsCountClass(w.escN[k]), w.bidRelation(k, in.Coin), rnsStatus(P, h), outcome))
		case "CancelBid":
			k := rnsBidKey(signer, in.Target)
			w.rc.NonTrivial(fmt.Sprintf("CancelBid/prior=%s/%s", rnsCountClass(w.escN[k]), outcome))
		case "AcceptBid":
			k := rnsBidKey(in.To, in.Target)
			w.rc.NonTrivial(fmt.Sprintf("AcceptBid/prior=%s/%s/%s/%s", rnsCountClass(w.escN[k]), w.role(signer, in.Target, pre), rnsStatus(P, h), outcome))
		case "Register", "RegisterName", "Buy", "Transfer":
			nb := 0
			for _, b := range pre.Bids {
				if b.Name == in.Target {
					nb++
				}
			}
			kk := in.Kind
			if kk == "RegisterName" {
				kk = "Register"
			}
			w.rc.NonTrivial(fmt.Sprintf("%s/openbids=%s/%s", kk, rnsCountClass(nb), outcome))
		}
	}

	// ---- a rejected message changes nothing (for Register this is C16's "a failed one costs nothing")
	if !ok {
		// "a bidder gets back everything it escrowed for a name by cancelling": a cancel of one's own open bid that is
		// refused leaves the escrow locked (not judged when the workload itself made the transaction fail)
		if in.Kind == "CancelBid" && !w.forcedFailure {
			if b, open := pre.Bids[rnsBidKey(signer, in.Target)]; open {
				w.fail("C09", "cancel-of-open-bid-refused", "h=%d %s by %s was rejected (%s) although its bid of %s on that name is open", h, rnsDescribe(msg), w.name(signer), rnsFirstLine(res.Log), b.PriceStr)
			}
		}
		if len(d) > 0 {
			w.fail(gp, "rejected-message-moved-balances", "h=%d %s by %s was rejected (%s) but balances moved: %s", h, rnsDescribe(msg), w.name(signer), rnsFirstLine(res.Log), w.deltaString(d))
		}
		for _, k := range rnsUnionNames(pre, post) {
			if !pre.Names[k].equal(post.Names[k]) {
				w.fail(gp, "rejected-message-changed-name", "h=%d %s by %s was rejected but %s went from %v to %v", h, rnsDescribe(msg), w.name(signer), k, pre.Names[k], post.Names[k])
			}
		}
		if !rnsSameBids(pre, post) {
			w.fail("C09", "rejected-message-changed-bids", "h=%d %s by %s was rejected but the open bids changed", h, rnsDescribe(msg), w.name(signer))
		}
		w.checkEscrowInvariant(post, "after rejected "+in.Kind)
		if gp == "C16" {
			w.c16NonTrivial(in, signer, pre, h, outcome)
		}
		return
	}

	// ---- C08: names change only as the statement permits
	moved := false // ownership of the live target moved
	for _, k := range rnsUnionNames(pre, post) {
		p, q := pre.Names[k], post.Names[k]
		if p.equal(q) {
			continue
		}
		if k != in.Target {
			switch {
			case in.Kind == "Init" && p == nil:
				// the free name Init creates
			case in.Kind == "Init" && p.live(h) && p.Owner != signer:
				w.fail("C08", "init-overwrote-live-name", "h=%d Init by %s replaced live name %s: %v -> %v", h, w.name(signer), k, p, q)
				w.fail("C16", "live-name-registered-by-non-owner/init", "h=%d Init by %s handed out the live name %s: %v -> %v", h, w.name(signer), k, p, q)
			case p.live(h):
				w.fail("C08", "message-changed-unrelated-live-name", "h=%d %s by %s changed %s (not named by the message): %v -> %v", h, rnsDescribe(msg), w.name(signer), k, p, q)
			default:
				w.anomaly("unrelated-dead-name-changed", "h=%d %s changed %s: %v -> %v", h, rnsDescribe(msg), k, p, q)
			}
			continue
		}
		if !p.live(h) {
			if in.Kind != "Register" && in.Kind != "RegisterName" {
				w.anomaly("dead-name-changed-by-"+in.Kind, "h=%d %s by %s changed %s: %v -> %v", h, rnsDescribe(msg), w.name(signer), k, p, q)
			}
			continue
		}
		ownerChanged := q == nil || q.Owner != p.Owner
		contentChanged := q == nil || q.Data != p.Data || !q.sameRecords(p)
		bySigner := p.Owner == signer
		if ownerChanged {
			moved = true
		}
		what := fmt.Sprintf("h=%d (expires %d) %s signed by %s (%s); owner was %s: %v -> %v", h, p.Expires, rnsDescribe(msg), w.name(signer), w.role(signer, k, pre), w.name(p.Owner), p, q)
		switch in.Kind {
		case "Register", "RegisterName":
			if !bySigner && (ownerChanged || contentChanged) {
				w.fail("C08", "live-name-taken-by-registration", "%s", what)
			}
		case "Transfer":
			if !bySigner {
				if ownerChanged || contentChanged {
					w.fail("C08", "transfer-by-non-owner-changed-live-name", "%s", what)
				}
			} else if q == nil || q.Owner != in.To {
				w.fail("C08", "transfer-moved-name-to-wrong-account", "%s", what)
			}
		case "AcceptBid":
			if !bySigner {
				if ownerChanged || contentChanged {
					w.fail("C08", "accept-bid-by-non-owner-changed-live-name", "%s", what)
				}
			} else {
				if q == nil || q.Owner != in.To {
					w.fail("C08", "accept-bid-moved-name-to-wrong-account", "%s", what)
				}
				// paid move: previous owner receives the full price (the open bid as recorded, or everything escrowed - either reading)
				bk := rnsBidKey(in.To, k)
				rec := pre.Bids[bk]
				if ownerChanged && !(rec.Parsed && rnsDeltaIs(d, p.Owner, rec.Price, +1)) && !rnsDeltaIs(d, p.Owner, w.escOf(bk), +1) {
					w.fail("C08", "accept-bid-previous-owner-not-paid-full-price", "%s; open bid %q, escrowed %s, balances: %s", what, rec.PriceStr, w.escOf(bk), w.deltaString(d))
				}
			}
		case "Buy":
			L, listed := pre.Sales[k]
			switch {
			case !(ownerChanged || contentChanged):
			case !listed:
				w.fail("C08", "buy-without-listing-changed-live-name", "%s", what)
			case L.Creator != p.Owner:
				w.fail("C08", "buy-honoured-stale-listing", "listing of %s was created by %s (price %s) but the current owner is %s, who never listed it; %s; balances: %s", k, w.name(L.Creator), L.PriceStr, w.name(p.Owner), what, w.deltaString(d))
			case ownerChanged && (w.consent[k].Creator != p.Owner || w.consent[k].PriceStr != L.PriceStr):
				// the listing honoured carries the owner's name but not the terms the owner set when listing: somebody
				// else rewrote it in between
				w.fail("C08", "buy-through-listing-the-owner-did-not-create", "listing of %s honoured at %s (creator %s), but the last listing its owner %s created was %+v; %s; balances: %s", k, L.PriceStr, w.name(L.Creator), w.name(p.Owner), w.consent[k], what, w.deltaString(d))
			}
			if ownerChanged {
				if q == nil || q.Owner != signer {
					w.fail("C08", "buy-moved-name-to-wrong-account", "%s", what)
				}
				if listed && L.Parsed {
					if !rnsDeltaIs(d, p.Owner, sdk.NewCoins(L.Price), +1) {
						w.fail("C08", "buy-previous-owner-not-paid-full-price", "name %s moved from %s to %s for %s, but the previous owner's balance moved by [%s]; balances: %s", k, w.name(p.Owner), w.name(signer), L.PriceStr, w.deltaOf(d, p.Owner), w.deltaString(d))
					}
				}
			}
		case "Update", "AddRecord", "DelRecord":
			if !bySigner {
				w.fail("C08", strings.ToLower(in.Kind)+"-by-non-owner-changed-live-name", "%s", what)
			} else if ownerChanged {
				w.fail("C08", strings.ToLower(in.Kind)+"-changed-owner", "%s", what)
			}
		default:
			if ownerChanged || contentChanged {
				w.fail("C08", strings.ToLower(in.Kind)+"-changed-live-name", "%s", what)
			}
		}
	}
	_ = moved
	// ListOwnedNames must tell the same story as Name for every live name
	for k, q := range post.Names {
		if !q.live(h) {
			continue
		}
		for _, a := range w.c.Accs {
			if post.Owned[a.Bech][k] != (q.Owner == a.Bech) {
				w.fail("C08", "listownednames-disagrees-with-name", "h=%d after %s: Name(%s).value=%s but ListOwnedNames(%s) contains it: %v", h, rnsDescribe(msg), k, w.name(q.Owner), w.name(a.Bech), post.Owned[a.Bech][k])
			}
		}
	}
	// listings: appear only through List by the signer, disappear only through Delist / Buy or together with an ownership change
	for k, s := range post.Sales {
		o, had := pre.Sales[k]
		if had && o.Creator == s.Creator && o.PriceStr == s.PriceStr {
			continue
		}
		if in.Kind == "List" && k == in.Target && s.Creator == signer && s.PriceStr == in.Coin.String() {
			if P.live(h) && P.Owner != signer {
				w.anomaly("listing-created-by-non-owner", "h=%d %s by %s; owner is %s", h, rnsDescribe(msg), w.name(signer), w.name(P.Owner))
			}
			continue
		}
		w.anomaly("listing-appeared-or-changed", "h=%d %s by %s: listing %s was %+v is %+v", h, rnsDescribe(msg), w.name(signer), k, o, s)
	}
	for k, o := range pre.Sales {
		if _, still := post.Sales[k]; still {
			continue
		}
		if k == in.Target && (in.Kind == "Delist" || in.Kind == "Buy" || in.Kind == "Transfer" || in.Kind == "AcceptBid" || in.Kind == "Register" || in.Kind == "RegisterName") {
			if in.Kind == "Delist" && o.Creator != signer && P.live(h) {
				w.anomaly("listing-removed-by-non-creator", "h=%d %s by %s removed the listing of %s", h, rnsDescribe(msg), w.name(signer), w.name(o.Creator))
			}
			continue
		}
		w.anomaly("listing-vanished", "h=%d %s by %s: listing %s (%+v) vanished", h, rnsDescribe(msg), w.name(signer), k, o)
	}

	// the terms the owner consented to: recorded when a List signed by the live name's owner leaves a listing in the
	// owner's name; forgotten when the listing is gone
	if in.Kind == "List" && P.live(h) && P.Owner == signer {
		if sl, ok := post.Sales[in.Target]; ok && sl.Creator == signer {
			w.consent[in.Target] = sl
		}
	}
	for k := range w.consent {
		if _, still := post.Sales[k]; !still {
			delete(w.consent, k)
		}
	}

	// an accepted Delist withdraws the owner's consent to sell: the listing must be gone, otherwise a later
	// purchase goes through a listing its owner has withdrawn
	if in.Kind == "Delist" && res.OK() {
		if o, had := pre.Sales[in.Target]; had {
			if s, still := post.Sales[in.Target]; still && s.Creator == o.Creator {
				w.fail("C08", "delist-accepted-listing-remains", "h=%d %s by %s returned code 0 but the listing of %s (%+v) is still there", h, rnsDescribe(msg), w.name(signer), in.Target, s)
			}
		}
	}

	// ---- balances and escrow, per message kind
	switch in.Kind {
	case "Register", "RegisterName":
		w.judgeRegister(in, signer, pre, post, d, h, msg)
		if len(d[w.mod]) > 0 {
			w.fail("C09", "residue-after-register", "h=%d %s by %s left the rns module account changed by [%s]", h, rnsDescribe(msg), w.name(signer), w.deltaOf(d, w.mod))
		}
	case "Buy":
		if len(d[w.mod]) > 0 {
			w.fail("C09", "residue-after-buy", "h=%d %s by %s left the rns module account changed by [%s]", h, rnsDescribe(msg), w.name(signer), w.deltaOf(d, w.mod))
		}
		// only the buyer and the account that owned the name immediately before take part
		allowed := []string{signer}
		if P != nil {
			allowed = append(allowed, P.Owner)
		}
		if L, listed := pre.Sales[in.Target]; listed && P != nil && L.Creator != P.Owner {
			allowed = append(allowed, L.Creator) // already reported as buy-honoured-stale-listing
		}
		if oth := w.othersChanged(d, append(allowed, w.mod)...); len(oth) > 0 {
			w.fail("C08", "buy-paid-third-party", "h=%d %s by %s (owner before: %s): balances of %v moved: %s", h, rnsDescribe(msg), w.name(signer), w.ownerName(P), oth, w.deltaString(d))
		}
	case "Bid":
		k := rnsBidKey(signer, in.Target)
		// whatever left the bidder must have entered the module, nothing else moves (an implementation may refund an earlier bid here)
		_, out := rnsDeltaCoins(d, signer)
		back, _ := rnsDeltaCoins(d, signer)
		min, mout := rnsDeltaCoins(d, w.mod)
		if !rnsCoinsEq(min, out) || !rnsCoinsEq(mout, back) {
			w.fail("C09", "bid-escrow-not-conserved", "h=%d %s by %s: bidder moved by [%s], module by [%s]", h, rnsDescribe(msg), w.name(signer), w.deltaOf(d, signer), w.deltaOf(d, w.mod))
		}
		if oth := w.othersChanged(d, signer, w.mod); len(oth) > 0 {
			w.fail("C09", "bid-moved-third-party-balance", "h=%d %s by %s: %s", h, rnsDescribe(msg), w.name(signer), w.deltaString(d))
		}
		e := w.escOf(k).Add(out...)
		if !back.IsZero() {
			if e.IsAllGTE(back) {
				e = e.Sub(back)
			} else {
				w.fail("C09", "bid-refunded-more-than-escrowed", "h=%d %s by %s: refunded [%s], escrowed before [%s]", h, rnsDescribe(msg), w.name(signer), back, w.escOf(k))
				e = sdk.NewCoins()
			}
		}
		w.esc[k] = e
		w.escN[k]++
		w.escL[k] = in.Coin
		rec, has := post.Bids[k]
		if !has {
			w.fail("C09", "accepted-bid-not-open", "h=%d %s by %s succeeded but no open bid is listed for it", h, rnsDescribe(msg), w.name(signer))
		} else if !rec.Parsed || !rnsCoinsEq(rec.Price, e) {
			w.fail("C09", "open-bid-differs-from-escrowed", "h=%d %s by %s: %s has escrowed [%s] for %s in total and got nothing back, but its open bid now reads %q (an earlier bid was overwritten without refund)", h, rnsDescribe(msg), w.name(signer), w.name(signer), e, in.Target, rec.PriceStr)
		}
	case "CancelBid":
		k := rnsBidKey(signer, in.Target)
		e := w.escOf(k)
		if _, had := pre.Bids[k]; !had && len(d) > 0 {
			w.fail("C09", "cancel-without-bid-moved-balances", "h=%d %s by %s: no open bid, balances: %s", h, rnsDescribe(msg), w.name(signer), w.deltaString(d))
		}
		if !rnsDeltaIs(d, signer, e, +1) {
			w.fail("C09", "cancel-refund-differs-from-escrowed", "h=%d %s by %s: escrowed for this name in total [%s], refunded [%s]; open bid read %q", h, rnsDescribe(msg), w.name(signer), e, w.deltaOf(d, signer), pre.Bids[k].PriceStr)
		}
		got, _ := rnsDeltaCoins(d, signer)
		if !rnsDeltaIs(d, w.mod, got, -1) && signer != w.mod {
			w.fail("C09", "cancel-refund-not-from-escrow", "h=%d %s by %s: bidder [%s], module [%s]", h, rnsDescribe(msg), w.name(signer), w.deltaOf(d, signer), w.deltaOf(d, w.mod))
		}
		if oth := w.othersChanged(d, signer, w.mod); len(oth) > 0 {
			w.fail("C09", "cancel-moved-third-party-balance", "h=%d %s by %s: %s", h, rnsDescribe(msg), w.name(signer), w.deltaString(d))
		}
		if _, still := post.Bids[k]; still {
			w.fail("C09", "bid-survives-cancel", "h=%d %s by %s: bid still open: %q", h, rnsDescribe(msg), w.name(signer), post.Bids[k].PriceStr)
		}
		delete(w.esc, k)
		delete(w.escN, k)
		delete(w.escL, k)
	case "AcceptBid":
		k := rnsBidKey(in.To, in.Target)
		e := w.escOf(k)
		if !rnsDeltaIs(d, signer, e, +1) {
			w.fail("C09", "accept-payout-differs-from-escrowed", "h=%d %s by %s: bidder %s escrowed in total [%s], acceptor received [%s]; open bid read %q", h, rnsDescribe(msg), w.name(signer), w.name(in.To), e, w.deltaOf(d, signer), pre.Bids[k].PriceStr)
		}
		got, _ := rnsDeltaCoins(d, signer)
		if !rnsDeltaIs(d, w.mod, got, -1) {
			w.fail("C09", "accept-payout-not-from-escrow", "h=%d %s by %s: acceptor [%s], module [%s]", h, rnsDescribe(msg), w.name(signer), w.deltaOf(d, signer), w.deltaOf(d, w.mod))
		}
		if oth := w.othersChanged(d, signer, w.mod); len(oth) > 0 {
			w.fail("C09", "accept-moved-third-party-balance", "h=%d %s by %s: %s", h, rnsDescribe(msg), w.name(signer), w.deltaString(d))
		}
		if _, still := post.Bids[k]; still {
			w.fail("C09", "bid-survives-accept", "h=%d %s by %s: bid still open: %q", h, rnsDescribe(msg), w.name(signer), post.Bids[k].PriceStr)
		}
		if P != nil && P.Owner != signer && P.live(h) && len(d) > 0 {
			w.fail("C09", "accept-paid-non-owner", "h=%d %s by %s who does not own the live name (owner %s): %s", h, rnsDescribe(msg), w.name(signer), w.name(P.Owner), w.deltaString(d))
		}
		delete(w.esc, k)
		delete(w.escN, k)
		delete(w.escL, k)
	default:
		// Transfer, List, Delist, Update, AddRecord, DelRecord, MakePrimary, Init move no coins
		if len(d) > 0 {
			w.fail(gp, strings.ToLower(in.Kind)+"-moved-balances", "h=%d %s by %s: %s", h, rnsDescribe(msg), w.name(signer), w.deltaString(d))
		}
	}
	// bids change only through Bid / CancelBid / AcceptBid on their own key
	for k, b := range pre.Bids {
		nb, still := post.Bids[k]
		touched := (in.Kind == "Bid" || in.Kind == "CancelBid") && k == rnsBidKey(signer, in.Target) || in.Kind == "AcceptBid" && k == rnsBidKey(in.To, in.Target)
		if touched {
			continue
		}
		if !still {
			w.fail("C09", "bid-vanished", "h=%d %s by %s: open bid %s on %s (%s) disappeared without cancel or accept", h, rnsDescribe(msg), w.name(signer), w.name(b.Bidder), b.Name, b.PriceStr)
			delete(w.esc, k)
			delete(w.escN, k)
		} else if nb.PriceStr != b.PriceStr {
			w.fail("C09", "bid-changed-by-other-message", "h=%d %s by %s: open bid %s on %s went %q -> %q", h, rnsDescribe(msg), w.name(signer), w.name(b.Bidder), b.Name, b.PriceStr, nb.PriceStr)
		}
	}
	for k, b := range post.Bids {
		if _, had := pre.Bids[k]; had {
			continue
		}
		if in.Kind == "Bid" && k == rnsBidKey(signer, in.Target) {
			continue
		}
		w.fail("C09", "bid-appeared-without-bid-message", "h=%d %s by %s: bid %s on %s (%s) appeared", h, rnsDescribe(msg), w.name(signer), w.name(b.Bidder), b.Name, b.PriceStr)
	}
	w.checkEscrowInvariant(post, "after "+in.Kind)

	// ---- bookkeeping of previous owners
	for k, q := range post.Names {
		if p := pre.Names[k]; p != nil && p.Owner != q.Owner {
			w.prev[k] = append(w.prev[k], p.Owner)
		}
	}
}

func (w *RW) ownerName(p *rwName) string {
	if p == nil {
		return "<none>"
	}
	return w.name(p.Owner)
}

func (w *RW) deltaOf(d chain.Delta, addr string) string {
	pos, neg := rnsDeltaCoins(d, addr)
	s := ""
	if !pos.IsZero() {
		s += "+" + pos.String()
	}
	if !neg.IsZero() {
		if s != "" {
			s += " "
		}
		s += "-" + neg.String()
	}
	if s == "" {
		s = "0"
	}
	return s
}

func (w *RW) escOf(k string) sdk.Coins {
	if e, ok := w.esc[k]; ok {
		return e
	}
	return sdk.NewCoins()
}

// rnsCoinsEq compares two coin sets by denomination (sdk.Coins.IsEqual panics on differing denoms).
func rnsCoinsEq(a, b sdk.Coins) bool {
	m := map[string]sdk.Int{}
	for _, c := range a {
		if !c.Amount.IsZero() {
			m[c.Denom] = c.Amount
		}
	}
	n := 0
	for _, c := range b {
		if c.Amount.IsZero() {
			continue
		}
		n++
		v, ok := m[c.Denom]
		if !ok || !v.Equal(c.Amount) {
			return false
		}
	}
	return n == len(m)
}

func rnsSameBids(a, b *rwState) bool {
	if len(a.Bids) != len(b.Bids) {
		return false
	}
	for k, x := range a.Bids {
		if y, ok := b.Bids[k]; !ok || y.PriceStr != x.PriceStr {
			return false
		}
	}
	return true
}

func rnsCountClass(n int) string {
	switch {
	case n == 0:
		return "0"
	case n == 1:
		return "1"
	}
	return "2+"
}

func (w *RW) bidRelation(k string, c sdk.Coin) string {
	if c.Amount.IsNil() {
		return "nil"
	}
	if c.Amount.IsNegative() {
		return "negative"
	}
	if c.Amount.IsZero() {
		return "zero"
	}
	last, ok := w.escL[k]
	if !ok {
		return "first"
	}
	if last.Denom != c.Denom {
		return "other-denom"
	}
	switch {
	case c.Amount.GT(last.Amount):
		return "larger"
	case c.Amount.LT(last.Amount):
		return "smaller"
	}
	return "equal"
}

// ---------------------------------------------------------------- C16: registration

func rnsSplit(full string) (label, tld string) {
	i := strings.LastIndex(full, ".")
	if i < 0 {
		return full, ""
	}
	return full[:i], full[i+1:]
}

// rnsListedPrice is the yearly "listed" price: the keeper's exported price function.
func rnsListedPrice(full string) (*big.Int, error) {
	label, tld := rnsSplit(full)
	c, err := rnskeeper.GetCostOfName(label, tld)
	if err != nil {
		return nil, err
	}
	return big.NewInt(c), nil
}

func rnsYearClass(y int64, full string) string {
	switch {
	case y == 0:
		return "0"
	case y < 0:
		return "negative"
	case y == 1:
		return "1"
	case y <= 20:
		return "2..20"
	}
	if p, err := rnsListedPrice(full); err == nil && p.Sign() > 0 {
		prod := new(big.Int).Mul(p, big.NewInt(y))
		if prod.BitLen() > 63 {
			wrapped := new(big.Int).And(prod, new(big.Int).SetUint64(^uint64(0)))
			if wrapped.BitLen() <= 63 && wrapped.Sign() > 0 && wrapped.Cmp(big.NewInt(1_000_000_000_000_000)) <= 0 {
				return "price-wraps-to-affordable"
			}
			return "price-overflows-int64"
		}
		if new(big.Int).Mul(big.NewInt(y), big.NewInt(rnsYearBlocks)).BitLen() > 63 {
			return "term-overflows-int64"
		}
	}
	return "large"
}

func rnsLenClass(full string) string {
	label, tld := rnsSplit(full)
	n := len(label)
	if n >= 5 {
		return "len5+." + tld
	}
	return fmt.Sprintf("len%d.%s", n, tld)
}

func rnsHeightRel(P *rwName, h int64) string {
	switch {
	case P == nil:
		return "never-registered"
	case h < P.Expires-1:
		return "long-before-expiry"
	case h == P.Expires-1:
		return "one-before-expiry"
	case h == P.Expires:
		return "at-expiry-height"
	case h == P.Expires+1:
		return "one-after-expiry"
	}
	return "long-after-expiry"
}

func (w *RW) c16NonTrivial(in rnsMsgInfo, signer string, pre *rwState, h int64, outcome string) {
	if w.rc.Prop != "C16" {
		return
	}
	P := pre.Names[in.Target]
	r := "fresh"
	if P != nil {
		r = w.role(signer, in.Target, pre)
		if r == "stale-lister" {
			r = "prev-owner"
		}
	}
	w.rc.NonTrivial(fmt.Sprintf("%s/years=%s/%s/%s/%s", rnsLenClass(in.Target), rnsYearClass(in.Years, in.Target), r, rnsHeightRel(P, h), outcome))
}

func rnsBigInt(v sdk.Int) *big.Int { return v.BigInt() }

// judgeRegister: a successful registration for Y years at height h (C16).
func (w *RW) judgeRegister(in rnsMsgInfo, signer string, pre, post *rwState, d chain.Delta, h int64, msg sdk.Msg) {
	w.c16NonTrivial(in, signer, pre, h, "ok")
	w.rc.Eval(1)
	price, err := rnsListedPrice(in.Target)
	if err != nil {
		w.fail("C16", "registered-name-without-listed-price", "h=%d %s by %s succeeded but the name has no listed price: %v", h, rnsDescribe(msg), w.name(signer), err)
		return
	}
	Y := big.NewInt(in.Years)
	want := new(big.Int).Mul(price, Y)
	term := new(big.Int).Mul(Y, big.NewInt(rnsYearBlocks))
	ctxs := fmt.Sprintf("h=%d %s by %s: yearly price %s, years %d, exact charge %s", h, rnsDescribe(msg), w.name(signer), price, in.Years, want)

	dS := rnsBigInt(d.Of(signer, rnsDenomA))
	dP := rnsBigInt(d.Of(w.pol, rnsDenomA))
	if dS.Cmp(new(big.Int).Neg(want)) != 0 || len(d[signer]) > 1 {
		w.fail("C16", "registrant-not-debited-listed-price", "%s; registrant's balance moved by [%s]", ctxs, w.deltaOf(d, signer))
	}
	if dP.Cmp(want) != 0 || len(d[w.pol]) > 1 {
		w.fail("C16", "pol-not-credited-full-price", "%s; protocol-liquidity account moved by [%s]", ctxs, w.deltaOf(d, w.pol))
	}
	if oth := w.othersChanged(d, signer, w.pol); len(oth) > 0 {
		w.fail("C16", "registration-moved-other-balances", "%s; balances: %s", ctxs, w.deltaString(d))
	}
	P, Q := pre.Names[in.Target], post.Names[in.Target]
	if Q == nil || Q.Owner != signer {
		w.fail("C16", "name-does-not-resolve-to-registrant", "%s; Name(%s) = %v", ctxs, in.Target, Q)
		return
	}
	exp := big.NewInt(Q.Expires)
	if P.live(h) {
		if P.Owner != signer {
			w.fail("C16", "live-name-registered-by-non-owner", "%s; %s was live (expires %d >= h=%d, the liveness test of transfer/update/list/buy) and owned by %s; now %v", ctxs, in.Target, P.Expires, h, w.name(P.Owner), Q)
			return
		}
		ext := new(big.Int).Sub(exp, big.NewInt(P.Expires))
		if ext.Cmp(term) != 0 {
			w.fail("C16", "renewal-extension-not-paid-term", "%s; live name renewed by its owner: expiry %d -> %d, extension %s blocks, paid term %s blocks", ctxs, P.Expires, Q.Expires, ext, term)
		}
		return
	}
	least := new(big.Int).Add(big.NewInt(h), term)
	if exp.Cmp(least) < 0 {
		cls := "fresh-name"
		detail := "never registered before"
		if P != nil {
			detail = fmt.Sprintf("previous registration by %s expired at %d", w.name(P.Owner), P.Expires)
			if P.Owner == signer {
				cls = "expired-name-same-owner"
			} else {
				cls = "expired-name-new-owner"
			}
		}
		w.fail("C16", "term-shorter-than-paid/"+cls, "%s; %s; new expiry %d < h + years*%d = %s (short by %s blocks)", ctxs, detail, Q.Expires, rnsYearBlocks, least, new(big.Int).Sub(least, exp))
	}
}

// ---------------------------------------------------------------- generator helpers shared by C08 / C09 / C16

func rnsMixCase(rc *RunCtx, full string) string {
	label, tld := rnsSplit(full)
	b := []byte(label)
	for i := range b {
		if b[i] >= 'a' && b[i] <= 'z' && rc.Chance(0.5) {
			b[i] -= 32
		}
	}
	return string(b) + "." + tld
}

func rnsFund() sdk.Coins {
	// rnsDenomC is an 18-decimal asset: ordinary amounts of it do not fit into an int64
	wei, _ := sdk.NewIntFromString("1000000000000000000000000")
	return sdk.NewCoins(sdk.NewInt64Coin(rnsDenomA, 1_000_000_000_000_000), sdk.NewInt64Coin(rnsDenomB, 1_000_000_000_000), sdk.NewCoin(rnsDenomC, wei))
}
