package props

import (
	"fmt"
	"reflect"

	"github.com/cosmos/cosmos-sdk/codec"
	"github.com/cosmos/cosmos-sdk/types/query"

	"jkverif/chain"
)

// Paged-listing monitor.
//
// The monitors observe module state through the modules' own list queries, asked for in one big page. A client pages
// through the same queries with small limits. This monitor walks a list query page by page (by next_key where the
// handler hands out next_keys, by offset, and reversed) at a quiescent point and compares what a paging client sees
// with the one-shot listing the oracles were fed with: the same records, each exactly once, never more than `limit`
// per page. A listing that drops, repeats or over-fills pages misreports the state the property is about (sum of open
// bids, files held, inbox contents ...) to every client that pages. Not demanded, because the statements do not: an
// order, full pages, count_total, or that a handler supports next_key / reverse at all (the unchanged inbox query
// supports offset and limit only, and AllNotifications under-fills pages that hold block records).

// pagedProblems returns a description of every disagreement (empty: consistent). req is a fresh request message whose
// Pagination field is overwritten; resp is a sample response used only for its type.
func pagedProblems(c *chain.Chain, path string, req codec.ProtoMarshaler, resp codec.ProtoMarshaler, limit uint64) (problems []string, n int) {
	setPg := func(p *query.PageRequest) {
		reflect.ValueOf(req).Elem().FieldByName("Pagination").Set(reflect.ValueOf(p))
	}
	type page struct {
		items []string
		next  []byte
		total uint64
	}
	fetch := func(p *query.PageRequest) (page, error) {
		setPg(p)
		out := reflect.New(reflect.TypeOf(resp).Elem()).Interface().(codec.ProtoMarshaler)
		if err := c.GRPC(path, req, out); err != nil {
			return page{}, err
		}
		var pg page
		v := reflect.ValueOf(out).Elem()
		for i := 0; i < v.NumField(); i++ {
			f := v.Field(i)
			if f.Kind() == reflect.Slice && f.Type().Elem().Kind() != reflect.Uint8 {
				for j := 0; j < f.Len(); j++ {
					e := f.Index(j)
					if e.Kind() == reflect.Ptr && !e.IsNil() {
						e = e.Elem()
					}
					pg.items = append(pg.items, fmt.Sprintf("%+v", e.Interface()))
				}
				break
			}
		}
		if pr, ok := v.FieldByName("Pagination").Interface().(*query.PageResponse); ok && pr != nil {
			pg.next, pg.total = pr.NextKey, pr.Total
		}
		return pg, nil
	}
	full, err := fetch(&query.PageRequest{Limit: qPage})
	if err != nil {
		return []string{fmt.Sprintf("one-shot listing failed: %v", err)}, 0
	}
	n = len(full.items)
	// The statements speak of what is listed, not of an order or of paging metadata: walks are compared with the
	// one-shot listing as multisets (every record exactly once, nothing else).
	same := func(what string, got []string) {
		cnt := map[string]int{}
		for _, x := range full.items {
			cnt[x]++
		}
		for _, x := range got {
			cnt[x]--
		}
		for x, d := range cnt {
			if d > 0 {
				problems = append(problems, fmt.Sprintf("%s with limit %d never shows %s, which the one-shot listing holds (%d records paged, %d listed)", what, limit, clip(x), len(got), n))
				return
			}
			if d < 0 {
				problems = append(problems, fmt.Sprintf("%s with limit %d shows %s more often than the one-shot listing does (%d records paged, %d listed)", what, limit, clip(x), len(got), n))
				return
			}
		}
	}
	const maxPages = 400
	// walk by next_key; a handler that never hands out a next_key does not offer this way of paging (skipped)
	{
		var got []string
		var key []byte
		supported := true
		for k := 0; k < maxPages; k++ {
			p, err := fetch(&query.PageRequest{Limit: limit, Key: key})
			if err != nil {
				problems = append(problems, fmt.Sprintf("next_key walk: page %d failed: %v", k, err))
				supported = false
				break
			}
			if uint64(len(p.items)) > limit {
				problems = append(problems, fmt.Sprintf("next_key walk: page %d holds %d records although limit is %d", k, len(p.items), limit))
			}
			got = append(got, p.items...)
			if len(p.next) == 0 {
				if k == 0 && len(got) < n {
					supported = false
				}
				break
			}
			key = p.next
		}
		if supported {
			same("next_key walk", got)
		}
	}
	// walk by offset: ends at a page without next_key that is empty, or without next_key once next_keys were seen
	{
		var got []string
		sawNext := false
		for k := 0; k < maxPages; k++ {
			p, err := fetch(&query.PageRequest{Limit: limit, Offset: uint64(k) * limit})
			if err != nil {
				problems = append(problems, fmt.Sprintf("offset walk: page %d failed: %v", k, err))
				break
			}
			if uint64(len(p.items)) > limit {
				problems = append(problems, fmt.Sprintf("offset walk: page %d holds %d records although limit is %d", k, len(p.items), limit))
			}
			got = append(got, p.items...)
			if len(p.next) > 0 {
				sawNext = true
				continue
			}
			if sawNext || len(p.items) == 0 {
				break
			}
		}
		same("offset walk", got)
	}
	// reversed one-shot: the same records (whether or not the handler honours the direction)
	if p, err := fetch(&query.PageRequest{Limit: qPage, Reverse: true}); err == nil {
		same("reversed listing", p.items)
	}
	return problems, n
}

// listQuery names one paged list query of a module.
type listQuery struct {
	Path string
	Req  func() codec.ProtoMarshaler
	Resp codec.ProtoMarshaler
}

// checkPaging runs pagedProblems for every query in qs with limits 1, 2 and 3 (a fixed rotation on the call count) and
// reports under the running property. Lists with fewer than two records are counted but prove nothing.
func checkPaging(rc *RunCtx, c *chain.Chain, qs []listQuery, tick int) {
	limit := uint64(1 + tick%3)
	for _, q := range qs {
		probs, n := pagedProblems(c, q.Path, q.Req(), q.Resp, limit)
		if n >= 2 {
			rc.Count("paged_listings_compared", 1)
			rc.Count("paged_records_compared", n)
		}
		for _, p := range probs {
			rc.Fail(rc.Prop+"/paged-listing-disagrees"+q.Path[stringsLastSlash(q.Path):], "%s: %s", q.Path, p)
			break
		}
	}
}

func stringsLastSlash(s string) int {
	for i := len(s) - 1; i >= 0; i-- {
		if s[i] == '/' {
			return i
		}
	}
	return 0
}
