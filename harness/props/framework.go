// Package props holds one runtime monitor per property. A "case" is one
// generated workload executed against a fresh real application with the
// property's monitors attached.
package props

import (
	"fmt"
	"math/rand"
	"os"
	"sort"

	"jkverif/chain"
)

type Finding struct {
	Prop   string   `json:"prop"`
	Sig    string   `json:"sig"`    // stable signature: clause / call site, no addresses or amounts
	Detail string   `json:"detail"` // what was observed
	Case   int      `json:"case"`
	Trace  []string `json:"trace,omitempty"`
}

type CaseResult struct {
	Findings    []Finding
	NonTrivial  []string // signatures of the distinct non-trivial situations this case covered
	Sample      interface{}
	Counters    map[string]int
	Evaluations int    // oracle evaluations performed in this case
	Aborted     string // non-empty: case ended early for a reason that is neither pass nor violation
}

type RunCtx struct {
	Prop    string
	Seed    int64
	Case    int
	Tier    string
	Rng     *rand.Rand
	Verbose bool
	trace   []string
	res     *CaseResult
}

func (rc *RunCtx) Logf(f string, a ...interface{}) {
	s := fmt.Sprintf(f, a...)
	if len(rc.trace) < 4000 {
		rc.trace = append(rc.trace, s)
	}
	if rc.Verbose {
		fmt.Fprintln(os.Stderr, "  | "+s)
	}
}

func (rc *RunCtx) Fail(sig string, f string, a ...interface{}) {
	d := fmt.Sprintf(f, a...)
	rc.Logf("FINDING %s: %s", sig, d)
	tr := rc.trace
	if len(tr) > 400 {
		tr = append(append([]string{}, tr[:50]...), append([]string{"..."}, tr[len(tr)-349:]...)...)
	}
	rc.res.Findings = append(rc.res.Findings, Finding{Prop: rc.Prop, Sig: sig, Detail: d, Case: rc.Case, Trace: append([]string{}, tr...)})
}

func (rc *RunCtx) NonTrivial(sig string) { rc.res.NonTrivial = append(rc.res.NonTrivial, sig) }
func (rc *RunCtx) Count(k string, n int) {
	if rc.res.Counters == nil {
		rc.res.Counters = map[string]int{}
	}
	rc.res.Counters[k] += n
}
func (rc *RunCtx) Eval(n int)               { rc.res.Evaluations += n }
func (rc *RunCtx) Abort(why string)         { rc.res.Aborted = why; rc.Logf("ABORT %s", why) }
func (rc *RunCtx) Sample(v interface{})     { rc.res.Sample = v }
func (rc *RunCtx) Trace() []string          { return rc.trace }
func (rc *RunCtx) Intn(n int) int           { return rc.Rng.Intn(n) }
func (rc *RunCtx) Pick(xs []int64) int64    { return xs[rc.Rng.Intn(len(xs))] }
func (rc *RunCtx) PickS(xs []string) string { return xs[rc.Rng.Intn(len(xs))] }
func (rc *RunCtx) Chance(p float64) bool    { return rc.Rng.Float64() < p }

type Prop struct {
	ID          string
	Title       string
	Cases       func(tier string) int
	Run         func(rc *RunCtx)
	Rule        string
	Assumptions []string
	MinNonTriv  int // floor on distinct non-trivial signatures per full run (quick tier)
	Exhaustive  func(tier string) bool
}

var Registry = map[string]*Prop{}

func Register(p *Prop) { Registry[p.ID] = p }

func IDs() []string {
	var out []string
	for k := range Registry {
		out = append(out, k)
	}
	sort.Strings(out)
	return out
}

// RunCase executes one case of a property with a PRNG fully determined by
// (seed, case index).
func RunCase(p *Prop, seed int64, idx int, tier string, verbose bool) (res CaseResult) {
	rc := &RunCtx{Prop: p.ID, Seed: seed, Case: idx, Tier: tier, Verbose: verbose,
		Rng: rand.New(rand.NewSource(seed*1_000_003 + int64(idx)*7919 + 17)), res: &res}
	defer func() {
		if r := recover(); r != nil {
			// a panic in harness/monitor code (or in app code reached outside the ABCI recover wrappers) is inconclusive
			res.Aborted = fmt.Sprintf("harness panic: %v", r)
			rc.Logf("harness panic: %v", r)
			if verbose {
				panic(r)
			}
		}
	}()
	// node-restart injection (chain.RestartProb): in every fourth case each Commit is followed with probability 0.2 by a
	// restart of the node on the same database. Unobservable for correct code; exposes results that depend on what an
	// instance remembers outside the store.
	chain.RestartProb, chain.RestartRng = 0, nil
	if idx%4 == 3 {
		chain.RestartProb = 0.2
		chain.RestartRng = rand.New(rand.NewSource(seed*7_368_787 + int64(idx)*104_729 + 5))
		rc.Logf("node restarts are injected in this case (probability 0.2 per Commit)")
	}
	r0 := chain.Restarts
	defer func() {
		if n := chain.Restarts - r0; n > 0 {
			rc.Count("node_restarts_injected", n)
		}
		chain.RestartProb, chain.RestartRng = 0, nil
	}()
	p.Run(rc)
	return res
}

func tierN(tier string, quick, thorough int) int {
	if tier == "thorough" {
		return thorough
	}
	return quick
}
