package props

import (
	"fmt"
	"sort"
	"strings"
	"time"

	"jkverif/chain"

	fttypes "github.com/jackalLabs/canine-chain/v4/x/filetree/types"
)

// C20 – hashed file-tree paths keep the parent/child relation; a trailing
// slash is neutral; distinct segment sequences give distinct addresses.
//
// Two kinds of case:
//   - pure: a batch of generated segment sequences is pushed through the real
//     types.MerklePath / types.AddToMerkle and compared with the independent
//     fold of ftmodel.go;
//   - on-chain: a tree is built with real ProvisionFileTree / PostFile
//     transactions; every returned Path must equal MerklePath(plain path) and
//     the fold, and the entry must be found by the File query at that address.
//
// Readings of "a trailing slash is neutral" (DESIGN.md section 8: accept every
// reading the statement allows). For strings without empty segments the
// readings coincide and the check is strict. For strings with empty segments:
//
//	R1: exactly one trailing '/' is dropped, every other '/' separates and an
//	    empty segment is a segment (address = fold(split(trim1(p)))).
//	R2: p+"/" and p always have the same address and parent+"/"+child is always
//	    the child of parent, hence empty segments after the first position
//	    vanish (address = fold(non-empty segments, a leading empty one kept)).
//
// An implementation may follow either reading but must follow ONE: answers that
// are explained only by R1 on one input and only by R2 on another break the
// parent/child relation under both readings.

func init() {
	Register(&Prop{
		ID:    "C20",
		Title: "Hashed file-tree paths keep the parent/child relation; trailing slash is neutral",
		Cases: func(t string) int { return c20Trees(t) + c20PureCases(t) },
		Run:   runC20,
		Rule: "pure case = 400 (thorough 1000) generated segment sequences, k<=8 segments over arbitrary bytes except '/', incl. empty segments, unicode, NUL, invalid UTF-8, up to 64 KiB, near-duplicates differing by a boundary move, 0..3 appended slashes; per sequence: MerklePath(join)=fold, every split point, AddToMerkle=H(a||b) on arbitrary strings, MerklePath(p+'/')=MerklePath(p), distinctness via a map over the batch; " +
			"on-chain case = one tree of 8..30 entries up to 8 levels deep built with real ProvisionFileTree/PostFile transactions, parent address taken from the previous response (client derivation), returned Path = MerklePath(plain path) = fold and File query finds the entry there; " +
			"non-trivial signature (pure) = (k, classes of segment content present, slashes appended, reading region); (on-chain) = (depth reached, name classes, poster role)",
		Assumptions: []string{
			"SHA-256 collision-freeness is assumed; distinctness is observed on the sample only",
			"segments contain no '/' (a '/'-joined string cannot denote one); an empty final segment is the trailing-slash case and is excluded from the strict parent/child clause",
			"for strings with empty segments both readings R1 (one neutral slash) and R2 (all empty segments neutral) are accepted, provided one reading explains every answer of the batch",
		},
		MinNonTriv: 60,
	})
}

func c20Trees(t string) int     { return tierN(t, 50, 4000) }
func c20PureCases(t string) int { return tierN(t, 50, 8000) }
func c20Batch(t string) int     { return tierN(t, 400, 1000) }

func runC20(rc *RunCtx) {
	if rc.Case < c20Trees(rc.Tier) {
		runC20Tree(rc)
		return
	}
	runC20Pure(rc)
}

// ---------------------------------------------------------------- generators

var c20Words = []string{"s", "home", "docs", "a", "b", "ab", "c", "bc", "abc", "file.txt", "ü", "√☃", "日本語", ".", "..", " ", "\x00", "a\x00b", ",", `"`, "{}", "\\", "%2F", "\xff\xfe", "e3b0c44298fc1c149afbf4c8996fb92427ae41e4649b934ca495991b7852b855"}

func c20Segment(rc *RunCtx, allowEmpty bool) (string, string) {
	switch x := rc.Intn(20); {
	case x == 0 && allowEmpty:
		return "", "empty"
	case x <= 9:
		return c20Words[rc.Intn(len(c20Words))], "word"
	case x <= 14:
		n := 1 + rc.Intn(12)
		b := make([]byte, n)
		for i := range b {
			c := byte(rc.Intn(256))
			if c == '/' {
				c = '_'
			}
			b[i] = c
		}
		return string(b), "bytes"
	case x <= 16:
		// a hex string shaped like a hash (what a client might confuse with an address)
		return ftH(fmt.Sprint(rc.Intn(50))), "hexlike"
	case x == 17:
		n := 1000 + rc.Intn(3000)
		if rc.Chance(0.15) {
			n = 20000 + rc.Intn(45000)
		}
		return strings.Repeat(string(rune('a'+rc.Intn(26))), n), "long"
	default:
		return c20Words[rc.Intn(len(c20Words))] + c20Words[rc.Intn(len(c20Words))], "concat"
	}
}

// den1 / den2: the segment sequence a string denotes under reading R1 / R2.
func c20Den1(p string) []string {
	if strings.HasSuffix(p, "/") {
		p = p[:len(p)-1]
	}
	return strings.Split(p, "/")
}

func c20Den2(p string) []string {
	parts := strings.Split(p, "/")
	out := []string{parts[0]}
	for _, s := range parts[1:] {
		if s != "" {
			out = append(out, s)
		}
	}
	return out
}

type c20Reading struct {
	r1only, r2only int
	ex1, ex2       string
}

// checkPath compares MerklePath(p) with the readings. Returns the address.
func c20CheckPath(rc *RunCtx, rd *c20Reading, p string) string {
	got := fttypes.MerklePath(p)
	a1, a2 := ftFold(c20Den1(p)), ftFold(c20Den2(p))
	rc.Eval(1)
	switch {
	case a1 == a2:
		if got != a1 {
			rc.Fail("C20/merklepath-not-fold", "MerklePath(%s) = %s, fold over %d segments = %s", ftQ(p), got, len(c20Den1(p)), a1)
		}
	case got == a1:
		rd.r1only++
		if rd.ex1 == "" {
			rd.ex1 = p
		}
	case got == a2:
		rd.r2only++
		if rd.ex2 == "" {
			rd.ex2 = p
		}
	default:
		rc.Fail("C20/merklepath-not-fold", "MerklePath(%s) = %s matches neither reading (one neutral slash: %s; empty segments neutral: %s)", ftQ(p), got, a1, a2)
	}
	return got
}

func runC20Pure(rc *RunCtx) {
	n := c20Batch(rc.Tier)
	seen := map[string][]string{} // address -> canonical sequence
	rd := &c20Reading{}
	classes := map[string]bool{}
	var prev []string
	var sample []string
	for i := 0; i < n; i++ {
		var segs []string
		if prev != nil && rc.Chance(0.25) {
			// near-duplicate of the previous sequence: move a boundary, merge or split segments
			segs = append([]string{}, prev...)
			j := rc.Intn(len(segs))
			switch rc.Intn(4) {
			case 0: // split one segment in two
				if len(segs[j]) >= 2 && len(segs) < 8 {
					c := 1 + rc.Intn(len(segs[j])-1)
					segs = append(segs[:j], append([]string{segs[j][:c], segs[j][c:]}, segs[j+1:]...)...)
				}
			case 1: // merge two
				if j+1 < len(segs) {
					segs = append(segs[:j], append([]string{segs[j] + segs[j+1]}, segs[j+2:]...)...)
				}
			case 2: // move one byte across a boundary
				if j+1 < len(segs) && len(segs[j]) >= 2 {
					l := len(segs[j])
					segs[j], segs[j+1] = segs[j][:l-1], segs[j][l-1:]+segs[j+1]
				}
			case 3: // the segment replaced by its own hash (inner-hash confusion)
				segs[j] = ftH(segs[j])
			}
			classes["neardup"] = true
		} else {
			k := 1 + rc.Intn(8)
			for j := 0; j < k; j++ {
				s, cl := c20Segment(rc, j < k-1 || rc.Chance(0.3))
				segs = append(segs, s)
				classes[cl] = true
			}
		}
		prev = segs
		k := len(segs)
		lastEmpty := segs[k-1] == ""
		hasEmpty := false
		for _, s := range segs {
			if s == "" {
				hasEmpty = true
			}
		}
		p := strings.Join(segs, "/")
		if len(sample) < 6 && len(p) < 60 {
			sample = append(sample, fmt.Sprintf("%q -> %s", p, fttypes.MerklePath(p)))
		}

		// (1) MerklePath(join) against the fold (strict when no empty segment is involved)
		addr := c20CheckPath(rc, rd, p)
		if !hasEmpty && addr != ftFold(segs) {
			rc.Fail("C20/merklepath-not-fold", "MerklePath(%s) = %s, fold(%d segments) = %s", ftQ(p), addr, k, ftFold(segs))
		}

		// (1b) the repository's client-side splitter (types.MerkleHelper, used by CreateMsgPostFile and the CLI path
		// helpers): a client that splits the plain path with it and combines the two halves must land on MerklePath
		if !hasEmpty && k >= 2 {
			ph, chh := fttypes.MerkleHelper(p)
			if got := fttypes.AddToMerkle(ph, chh); got != ftFold(segs) {
				rc.Fail("C20/client-split-disagrees", "MerkleHelper(%s) = (%s, %s): combined %s, fold over %d segments = %s", ftQ(p), ph, chh, got, k, ftFold(segs))
			}
			rc.Eval(1)
		}

		// (1c) the same for a path that starts with a separator (an empty first segment and no other empty one): the
		// parent string is then "" or "/...": the halves must still combine to the address of the plain path
		if hasEmpty && k >= 2 && segs[0] == "" && !lastEmpty {
			inner := false
			for _, sg := range segs[1:] {
				inner = inner || sg == ""
			}
			if !inner {
				ph, chh := fttypes.MerkleHelper(p)
				if got, want := fttypes.AddToMerkle(ph, chh), fttypes.MerklePath(p); got != want {
					rc.Fail("C20/client-split-disagrees/leading-separator", "MerkleHelper(%s) = (%s, %s): combined %s, MerklePath of the plain path = %s", ftQ(p), ph, chh, got, want)
				}
				if chh != ftH(segs[k-1]) {
					rc.Fail("C20/client-split-child-not-hash-of-name", "MerkleHelper(%s): child part %s is not the hash of the last segment %s", ftQ(p), chh, ftQ(segs[k-1]))
				}
				rc.Eval(1)
				rc.Count("leading-separator-paths", 1)
			}
		}

		// (2) every split point
		for i2 := 0; i2 < k; i2++ {
			child := segs[i2]
			ch := ftH(child)
			// AddToMerkle is one fold step, whatever the strings
			parentModel := ftFold(segs[:i2])
			if got := fttypes.AddToMerkle(parentModel, ch); got != ftStep(parentModel, ch) {
				rc.Fail("C20/addtomerkle-not-fold-step", "AddToMerkle(%s,%s) = %s, H(parent||child) = %s", parentModel, ch, got, ftStep(parentModel, ch))
			}
			rc.Eval(1)
			if child == "" {
				continue // empty final segment of the prefix: the trailing-slash case
			}
			full := strings.Join(segs[:i2+1], "/")
			prefixHasEmpty := false
			for _, s := range segs[:i2] {
				if s == "" {
					prefixHasEmpty = true
				}
			}
			if i2 == 0 {
				// parent of a one-segment path is the empty fold ""
				if got, want := fttypes.AddToMerkle("", ch), fttypes.MerklePath(full); got != want {
					rc.Fail("C20/parent-child-relation", "AddToMerkle(\"\", H(%s)) = %s but MerklePath(%s) = %s", ftQ(child), got, ftQ(full), want)
				}
				continue
			}
			if segs[i2-1] == "" {
				// the parent's own path string ends in '/': only reading-relative claims can be made (done by c20CheckPath on the strings)
				c20CheckPath(rc, rd, full)
				continue
			}
			parentStr := strings.Join(segs[:i2], "/")
			got := fttypes.AddToMerkle(fttypes.MerklePath(parentStr), ch)
			want := fttypes.MerklePath(full)
			if got != want {
				rc.Fail("C20/parent-child-relation", "AddToMerkle(MerklePath(%s), H(%s)) = %s but MerklePath(%s) = %s", ftQ(parentStr), ftQ(child), got, ftQ(full), want)
			}
			if !prefixHasEmpty && want != ftFold(segs[:i2+1]) {
				rc.Fail("C20/merklepath-not-fold", "MerklePath(%s) = %s, fold = %s", ftQ(full), want, ftFold(segs[:i2+1]))
			}
			rc.Eval(1)
		}

		// (3) trailing slash neutrality (strict for a non-empty last segment)
		if !lastEmpty {
			if a, b := fttypes.MerklePath(p+"/"), addr; a != b {
				rc.Fail("C20/trailing-slash-not-neutral", "MerklePath(%s) = %s but MerklePath(%s) = %s", ftQ(p+"/"), a, ftQ(p), b)
			}
			rc.Eval(1)
		}
		// more slashes: reading-relative
		extra := rc.Intn(4)
		if extra > 0 {
			c20CheckPath(rc, rd, p+strings.Repeat("/", extra))
		}

		// (4) distinctness over the batch, for sequences both readings agree on
		if !hasEmpty {
			if old, ok := seen[addr]; ok {
				if strings.Join(old, "/") != p {
					rc.Fail("C20/address-collision", "sequences %q and %q share address %s", old, segs, addr)
				}
			} else {
				seen[addr] = segs
			}
			rc.Eval(1)
		}
		reg := "plain"
		if hasEmpty {
			reg = "empty-seg"
		}
		rc.NonTrivial(fmt.Sprintf("pure/k=%d/%s/slashes+%d", k, reg, extra))
	}
	if rd.r1only > 0 && rd.r2only > 0 {
		rc.Fail("C20/trailing-slash-reading-inconsistent", "MerklePath(%s) is explained only by 'one neutral slash, empty segments count' while MerklePath(%s) is explained only by 'empty segments vanish' (%d vs %d inputs): under either reading some parent/child pair is broken", ftQ(rd.ex1), ftQ(rd.ex2), rd.r1only, rd.r2only)
	}
	rc.Count("paths", n)
	rc.Count("distinct-addresses", len(seen))
	rc.Count("reading-R1-only-inputs", rd.r1only)
	rc.Count("reading-R2-only-inputs", rd.r2only)
	var cl []string
	for k := range classes {
		cl = append(cl, k)
	}
	sort.Strings(cl)
	rc.Sample(map[string]interface{}{"kind": "pure", "paths": n, "segment_classes": cl, "examples": sample})
}

// ---------------------------------------------------------------- on-chain trees

type c20Node struct {
	path  []string // names from the root "s"
	addr  string   // address returned by the chain
	track string
	owner int
}

func runC20Tree(rc *RunCtx) {
	c, err := chain.New(chain.Config{Seed: rc.Seed*17 + 3, NAcc: 3})
	if err != nil {
		rc.Abort("init: " + err.Error())
		return
	}
	defer c.Close()
	if _, err := c.BeginBlock(6 * time.Second); err != nil {
		rc.Abort("beginblock: " + err.Error())
		return
	}
	ownerIdx := rc.Intn(2)
	owner := c.Accs[ownerIdx].Bech
	acct := ftAcct(owner)
	editors := func(track string) string {
		// the owner and account 2 (a collaborator) may edit
		return fmt.Sprintf(`{%q:"k",%q:"k"}`, ftEditorID(track, owner), ftEditorID(track, c.Accs[2].Bech))
	}
	track := fmt.Sprintf("trk-%d-root", rc.Case)
	res := c.DeliverAs(ownerIdx, &fttypes.MsgProvisionFileTree{Creator: owner, Editors: editors(track), Viewers: "{}", TrackingNumber: track})
	if !res.OK() {
		rc.Abort("provision failed: " + res.Log)
		return
	}
	rootAddr := fttypes.MerklePath("s")
	rc.Eval(1)
	if rootAddr != ftRootAddr() {
		rc.Fail("C20/merklepath-not-fold", "MerklePath(\"s\") = %s, fold = %s", rootAddr, ftRootAddr())
		return
	}
	// the root must be found at MerklePath("s")
	var fr fttypes.QueryFileResponse
	if err := c.GRPC("/canine_chain.filetree.Query/File", &fttypes.QueryFile{Address: rootAddr, OwnerAddress: ftOwnerKey(rootAddr, acct)}, &fr); err != nil || fr.File.Address != rootAddr {
		rc.Fail("C20/root-not-at-merklepath", "after ProvisionFileTree the File query at (MerklePath(\"s\"), owner key) gives %v / %+v", err, fr.File)
		return
	}
	nodes := []c20Node{{path: []string{"s"}, addr: rootAddr, track: track, owner: ownerIdx}}
	want := 8 + rc.Intn(23)
	maxDepth := 1
	classes := map[string]bool{}
	usedPaths := map[string]bool{"s": true}
	addrSeen := map[string]string{rootAddr: "s"}
	var sample []string
	collab := false
	for len(nodes) < want {
		if rc.Chance(0.15) {
			if _, err := c.NextBlock(6 * time.Second); err != nil {
				rc.Abort("block: " + err.Error())
				return
			}
		}
		// prefer deep parents so that depth 8 is reached
		pi := rc.Intn(len(nodes))
		if rc.Chance(0.5) {
			pi = len(nodes) - 1 - rc.Intn(c20Min(3, len(nodes)))
		}
		parent := nodes[pi]
		if len(parent.path) >= 9 {
			continue
		}
		name, cl := c20Segment(rc, false)
		if name == "" || len(name) > 5000 {
			continue
		}
		plain := strings.Join(append(append([]string{}, parent.path...), name), "/")
		if usedPaths[plain] {
			continue
		}
		usedPaths[plain] = true
		classes[cl] = true
		tr := fmt.Sprintf("trk-%d-%d", rc.Case, len(nodes))
		poster := ownerIdx
		if rc.Chance(0.3) {
			poster = 2
			collab = true
		}
		// client derivation: parent address as returned by the chain + hash of the child's name
		msg := &fttypes.MsgPostFile{Creator: c.Accs[poster].Bech, Account: acct, HashParent: parent.addr, HashChild: ftH(name),
			Contents: fmt.Sprintf(`{"i":%d}`, len(nodes)), Viewers: "{}", Editors: editors(tr), TrackingNumber: tr}
		res := c.DeliverAs(poster, msg)
		if res.Code == 1<<30 {
			rc.Logf("name %q cannot be put in a transaction: %s", name, res.Log)
			continue
		}
		if !res.OK() {
			rc.Abort(fmt.Sprintf("post of %s failed: %s", ftQ(plain), res.Log))
			return
		}
		var pr fttypes.MsgPostFileResponse
		if err := res.MsgResponse(0, &pr); err != nil {
			rc.Abort("post response: " + err.Error())
			return
		}
		rc.Eval(1)
		segs := append(append([]string{}, parent.path...), name)
		mp := fttypes.MerklePath(plain)
		rc.Logf("post %s by a%d -> Path %s", ftQ(plain), poster, pr.Path)
		if pr.Path != mp {
			rc.Fail("C20/posted-path-not-merklepath", "PostFile(parent=%s, child=H(%s)) returned %s but MerklePath(%s) = %s", parent.addr, ftQ(name), pr.Path, ftQ(plain), mp)
			return
		}
		if pr.Path != ftFold(segs) {
			rc.Fail("C20/posted-path-not-fold", "PostFile returned %s for %s, fold over %d segments = %s", pr.Path, ftQ(plain), len(segs), ftFold(segs))
			return
		}
		if mps := fttypes.MerklePath(plain + "/"); mps != pr.Path {
			rc.Fail("C20/trailing-slash-not-neutral", "MerklePath(%s) = %s, posted entry lives at %s", ftQ(plain+"/"), mps, pr.Path)
			return
		}
		if other, ok := addrSeen[pr.Path]; ok && other != plain {
			rc.Fail("C20/address-collision", "paths %s and %s share address %s", ftQ(other), ftQ(plain), pr.Path)
			return
		}
		addrSeen[pr.Path] = plain
		// the entry is found at that address, under the folder account's owner key
		var fr fttypes.QueryFileResponse
		if err := c.GRPC("/canine_chain.filetree.Query/File", &fttypes.QueryFile{Address: mp, OwnerAddress: ftOwnerKey(mp, acct)}, &fr); err != nil {
			rc.Fail("C20/entry-not-found-at-merklepath", "File(MerklePath(%s)=%s, ownerKey) after a successful post: %v", ftQ(plain), mp, err)
			return
		}
		if fr.File.Address != mp || fr.File.Contents != msg.Contents || fr.File.TrackingNumber != tr {
			rc.Fail("C20/entry-not-found-at-merklepath", "File(MerklePath(%s)) returns another entry: %+v", ftQ(plain), fr.File)
			return
		}
		nodes = append(nodes, c20Node{path: segs, addr: pr.Path, track: tr, owner: ownerIdx})
		if len(segs) > maxDepth {
			maxDepth = len(segs)
		}
		if len(sample) < 5 && len(plain) < 70 {
			sample = append(sample, fmt.Sprintf("%q -> %s", plain, pr.Path))
		}
	}
	// every entry is still found at the end (later posts did not displace earlier ones)
	for _, nd := range nodes {
		var fr fttypes.QueryFileResponse
		if err := c.GRPC("/canine_chain.filetree.Query/File", &fttypes.QueryFile{Address: nd.addr, OwnerAddress: ftOwnerKey(nd.addr, acct)}, &fr); err != nil {
			rc.Fail("C20/entry-not-found-at-merklepath", "entry %s no longer found at %s: %v", ftQ(strings.Join(nd.path, "/")), nd.addr, err)
			return
		}
		rc.Eval(1)
	}
	var cl []string
	for _, k := range []string{"word", "bytes", "hexlike", "long", "concat"} {
		if classes[k] {
			cl = append(cl, k)
		}
	}
	rc.Count("tree-entries", len(nodes))
	rc.NonTrivial(fmt.Sprintf("tree/depth=%d/%s/collab=%v", maxDepth, strings.Join(cl, "+"), collab))
	rc.Sample(map[string]interface{}{"kind": "on-chain tree", "entries": len(nodes), "depth": maxDepth, "examples": sample})
}

func c20Min(a, b int) int {
	if a < b {
		return a
	}
	return b
}
