package props

import (
	"crypto/sha256"
	"encoding/hex"
	"encoding/json"
	"sort"
	"strings"
)

// Reference model of the file tree (DESIGN.md Appendix A.4), written from the
// property statements of C10 and C20. Nothing in this file calls into
// x/filetree: the three hashing schemes (account hash, owner key, viewer /
// editor id) and the path fold are re-implemented here with
// sha256.Sum256 + hex.EncodeToString.

// ftH is "H" of Appendix A.4: lower-case hex of sha256.
func ftH(s string) string {
	sum := sha256.Sum256([]byte(s))
	return hex.EncodeToString(sum[:])
}

// ftAcct is acct(u) = H(bech32 u).
func ftAcct(u string) string { return ftH(u) }

// ftOwnerKey is ownerKey(addr, a) = H("o" ‖ addr ‖ a), a being an account hash
// (or whatever string a message supplies in its place).
func ftOwnerKey(addr, a string) string { return ftH("o" + addr + a) }

// ftViewerID / ftEditorID are the access-list ids H("v"|"e" ‖ tracking ‖ bech32).
func ftViewerID(tracking, u string) string { return ftH("v" + tracking + u) }
func ftEditorID(tracking, u string) string { return ftH("e" + tracking + u) }

// ftStep is one fold step: address of a child given the parent address and the
// hex hash of the child's name.
func ftStep(parent, childHash string) string { return ftH(parent + childHash) }

// ftFold is addr([s1..sk]) = fold(λ t,s. H(t ‖ H(s)), "").
func ftFold(segs []string) string {
	t := ""
	for _, s := range segs {
		t = ftStep(t, ftH(s))
	}
	return t
}

// ftRootAddr is the address of every account's root folder "s".
func ftRootAddr() string { return ftFold([]string{"s"}) }

// ---------------------------------------------------------------- entries

type ftEntry struct {
	Address, Owner, Contents, Viewing, Editing, Tracking string
}

type ftKey struct{ Addr, Owner string }

// ftRawKey is the documented store layout of an entry under `Files/value/`
// (property record C10, state: "key Address/Owner/").
func ftRawKey(addr, owner string) string { return "Files/value/" + addr + "/" + owner + "/" }

type ftModel struct {
	E map[ftKey]*ftEntry
}

func newFtModel() *ftModel { return &ftModel{E: map[ftKey]*ftEntry{}} }

func (m *ftModel) get(addr, owner string) *ftEntry { return m.E[ftKey{addr, owner}] }

func (m *ftModel) clone() *ftModel {
	n := newFtModel()
	for k, v := range m.E {
		c := *v
		n.E[k] = &c
	}
	return n
}

func (m *ftModel) keys() []ftKey {
	var out []ftKey
	for k := range m.E {
		out = append(out, k)
	}
	sort.Slice(out, func(i, j int) bool {
		if out[i].Addr != out[j].Addr {
			return out[i].Addr < out[j].Addr
		}
		return out[i].Owner < out[j].Owner
	})
	return out
}

// ftParseAccess reads a stored access list. The statement speaks of "access
// ids" inside a JSON object; a list that is not a JSON object of strings is
// malformed and every message that would have to read it must fail (A.4).
func ftParseAccess(s string) (map[string]string, bool) {
	m := map[string]string{}
	if err := json.Unmarshal([]byte(s), &m); err != nil {
		return nil, false
	}
	if m == nil {
		m = map[string]string{}
	}
	return m, true
}

func ftIsOwner(e *ftEntry, u string) bool { return e.Owner == ftOwnerKey(e.Address, ftAcct(u)) }

// ftCanEdit: (ok=false) means the stored list is malformed.
func ftCanEdit(e *ftEntry, u string) (can bool, ok bool) {
	m, ok := ftParseAccess(e.Editing)
	if !ok {
		return false, false
	}
	_, can = m[ftEditorID(e.Tracking, u)]
	return can, true
}

func ftCanView(e *ftEntry, u string) bool {
	m, ok := ftParseAccess(e.Viewing)
	if !ok {
		return false
	}
	_, can := m[ftViewerID(e.Tracking, u)]
	return can
}

// ---------------------------------------------------------------- messages (model side)

type ftOp struct {
	Kind   string // provision post delete chown addv remv resetv adde reme resete postkey
	Signer string // bech32
	// free-text fields, named after their role
	Account   string // post, delete: account hash as supplied
	Parent    string // post: HashParent
	Child     string // post: HashChild
	Address   string // delete (HashPath), chown, access ops
	FileOwner string // chown: account hash of current owner; access ops: owner key
	NewOwner  string // chown
	Ids, Keys string // access ops
	Contents  string
	Viewers   string
	Editors   string
	Tracking  string
	Key       string // postkey
}

// Verdict of the model for one message on one pre-state.
type ftVerdict struct {
	// Permit: the statement allows the message to act; Post is the exact
	// state afterwards. When !Permit the tree must stay unchanged.
	Permit bool
	// MustFail: the targeted entry exists and the signer lacks the right the
	// statement requires, so the message must be refused (non-zero code).
	MustFail bool
	Why      string
	Post     *ftModel
	// Touched is the one entry key the message may write/delete (for reporting).
	Touched []ftKey
	// for access ops: which list, and the expected parsed list afterwards
	List    string // "v" | "e" | ""
	WantMap map[string]string
	// FreeValueIDs: ids whose value the statement leaves open (reset with the owner's id absent before)
	FreeValueIDs map[string]bool
	// ReturnPath: address a successful post must return
	ReturnPath string
}

func ftSplit(s string) []string { return strings.Split(s, ",") }

// Apply decides one message against state m (m is not modified).
func (m *ftModel) Apply(op ftOp) ftVerdict {
	deny := func(mustFail bool, why string) ftVerdict {
		return ftVerdict{Permit: false, MustFail: mustFail, Why: why}
	}
	switch op.Kind {
	case "provision":
		addr := ftRootAddr()
		owner := ftOwnerKey(addr, ftAcct(op.Signer))
		p := m.clone()
		p.E[ftKey{addr, owner}] = &ftEntry{Address: addr, Owner: owner, Contents: "", Viewing: op.Viewers, Editing: op.Editors, Tracking: op.Tracking}
		return ftVerdict{Permit: true, Why: "signer's own root", Post: p, Touched: []ftKey{{addr, owner}}}
	case "post":
		pk := ftKey{op.Parent, ftOwnerKey(op.Parent, op.Account)}
		parent := m.E[pk]
		if parent == nil {
			return deny(false, "no folder (parent, ownerKey(parent, account))")
		}
		can, ok := ftCanEdit(parent, op.Signer)
		if !ok {
			return deny(false, "folder's edit list is malformed")
		}
		if !can {
			return deny(true, "signer has no edit access to the folder")
		}
		addr := ftStep(op.Parent, op.Child)
		owner := ftOwnerKey(addr, op.Account)
		p := m.clone()
		p.E[ftKey{addr, owner}] = &ftEntry{Address: addr, Owner: owner, Contents: op.Contents, Viewing: op.Viewers, Editing: op.Editors, Tracking: op.Tracking}
		return ftVerdict{Permit: true, Why: "editor of the folder", Post: p, Touched: []ftKey{{addr, owner}}, ReturnPath: addr}
	case "delete":
		k := ftKey{op.Address, ftOwnerKey(op.Address, op.Account)}
		e := m.E[k]
		if e == nil {
			return deny(false, "no such entry")
		}
		if !ftIsOwner(e, op.Signer) {
			return deny(true, "signer is not the owner")
		}
		p := m.clone()
		delete(p.E, k)
		return ftVerdict{Permit: true, Why: "owner deletes", Post: p, Touched: []ftKey{k}}
	case "chown":
		k := ftKey{op.Address, ftOwnerKey(op.Address, op.FileOwner)}
		e := m.E[k]
		if e == nil {
			return deny(false, "no such entry")
		}
		if !ftIsOwner(e, op.Signer) {
			return deny(true, "signer is not the owner")
		}
		nk := ftKey{op.Address, ftOwnerKey(op.Address, op.NewOwner)}
		if m.E[nk] != nil {
			// the new owner already holds an entry at this address (or it is the same key):
			// altering "nothing but the named entry" leaves no room for a move
			return deny(false, "target owner key occupied")
		}
		p := m.clone()
		delete(p.E, k)
		c := *e
		c.Owner = nk.Owner
		p.E[nk] = &c
		return ftVerdict{Permit: true, Why: "owner gives away", Post: p, Touched: []ftKey{k, nk}}
	case "addv", "remv", "resetv", "adde", "reme", "resete":
		k := ftKey{op.Address, op.FileOwner}
		e := m.E[k]
		if e == nil {
			return deny(false, "no such entry")
		}
		if !ftIsOwner(e, op.Signer) {
			return deny(true, "signer is not the owner")
		}
		list := "v"
		cur := e.Viewing
		if op.Kind == "adde" || op.Kind == "reme" || op.Kind == "resete" {
			list = "e"
			cur = e.Editing
		}
		mp, ok := ftParseAccess(cur)
		if !ok {
			return deny(false, "stored access list is malformed")
		}
		want := map[string]string{}
		for a, b := range mp {
			want[a] = b
		}
		free := map[string]bool{}
		switch op.Kind {
		case "addv", "adde":
			ids, keys := ftSplit(op.Ids), ftSplit(op.Keys)
			if len(keys) < len(ids) {
				return deny(false, "fewer keys than ids")
			}
			for i, id := range ids {
				want[id] = keys[i]
			}
		case "remv", "reme":
			for _, id := range ftSplit(op.Ids) {
				delete(want, id)
			}
		case "resetv", "resete":
			var own string
			if list == "v" {
				own = ftViewerID(e.Tracking, op.Signer)
			} else {
				own = ftEditorID(e.Tracking, op.Signer)
			}
			old, had := mp[own]
			want = map[string]string{own: old}
			if !had {
				free[own] = true
			}
		}
		p := m.clone()
		return ftVerdict{Permit: true, Why: "owner edits access list", Post: p, Touched: []ftKey{k}, List: list, WantMap: want, FreeValueIDs: free}
	case "postkey":
		return ftVerdict{Permit: true, Why: "public key only; no entry may change", Post: m.clone()}
	}
	return deny(false, "unknown kind")
}
