package props

import (
	"fmt"
	"github.com/cosmos/cosmos-sdk/codec"
	"github.com/jackalLabs/canine-chain/v4/app"
	"strings"

	sdk "github.com/cosmos/cosmos-sdk/types"

	"jkverif/chain"

	notiftypes "github.com/jackalLabs/canine-chain/v4/x/notifications/types"
	oracletypes "github.com/jackalLabs/canine-chain/v4/x/oracle/types"
	rnstypes "github.com/jackalLabs/canine-chain/v4/x/rns/types"
	storagetypes "github.com/jackalLabs/canine-chain/v4/x/storage/types"
)

// ---------------------------------------------------------------- ownership rule

// c11Owners returns the owner(s) a changed store key belongs to: one entry per
// existing side of the change (old / new record). known=false means the key
// is of a kind no message of family (b)/(c) may touch at all.
func c11Owners(c *chain.Chain, ch c11Change) (owners []string, known bool) {
	seg := func(prefix string, i int) ([]string, bool) {
		if !strings.HasPrefix(ch.Key, prefix) {
			return nil, false
		}
		p := strings.Split(strings.TrimPrefix(ch.Key, prefix), "/")
		if i >= len(p) {
			return []string{"?malformed key"}, true
		}
		return []string{p[i]}, true
	}
	switch ch.Store {
	case storagetypes.StoreKey:
		for _, r := range []struct {
			p string
			i int
		}{
			{storagetypes.ProvidersKeyPrefix, 0},
			{storagetypes.ActiveProvidersKeyPrefix, 0},
			{storagetypes.CollateralKeyPrefix, 0},
			{storagetypes.StoragePaymentInfoKeyPrefix, 0},
			{storagetypes.FilePrimaryKeyPrefix, 1},   // merkle/owner/start
			{storagetypes.FileSecondaryKeyPrefix, 0}, // owner/merkle/start
			{storagetypes.ProofKeyPrefix, 1},         // prover/owner/merkle/start: belongs to the file
		} {
			if o, ok := seg(r.p, r.i); ok {
				return o, true
			}
		}
	case oracletypes.StoreKey:
		if strings.HasPrefix(ch.Key, oracletypes.FeedKeyPrefix) {
			for _, bz := range [][]byte{ch.Old, ch.New} {
				if bz == nil {
					continue
				}
				var f oracletypes.Feed
				if err := c.Enc.Unmarshal(bz, &f); err != nil {
					owners = append(owners, "?undecodable feed")
				} else {
					owners = append(owners, f.Owner)
				}
			}
			return owners, true
		}
	case notiftypes.StoreKey:
		if o, ok := seg(notiftypes.NotificationsKeyPrefix, 0); ok { // inbox entries <to>/<from>/<time> and block entries <owner>/<blocked>
			return o, true
		}
	case rnstypes.StoreKey:
		if o, ok := seg(rnstypes.PrimaryNameKeyPrefix, 0); ok {
			return o, true
		}
		if strings.HasPrefix(ch.Key, rnstypes.NamesKeyPrefix) {
			for _, bz := range [][]byte{ch.Old, ch.New} {
				if bz == nil {
					continue
				}
				var n rnstypes.Names
				if err := c.Enc.Unmarshal(bz, &n); err != nil {
					owners = append(owners, "?undecodable name")
				} else if n.Expires >= c.Height {
					owners = append(owners, n.Value)
				} // an expired name belongs to nobody: anybody may register it anew
			}
			return owners, true
		}
	}
	return nil, false
}

func c11KeyClass(ch c11Change) string {
	k := ch.Key
	if i := strings.Index(k, "/value/"); i >= 0 {
		return ch.Store + ":" + k[:i]
	}
	if i := strings.Index(k, "/"); i >= 0 {
		return ch.Store + ":" + k[:i]
	}
	return ch.Store + ":?"
}

// c11CheckDiff applies the ownership rule to one message's KV diff.
func c11CheckDiff(rc *RunCtx, c *chain.Chain, kind, signer string, diff []c11Change, name func(string) string) {
	for _, ch := range diff {
		owners, known := c11Owners(c, ch)
		if !known {
			rc.Fail("C11/"+kind+"/touched-unowned-record/"+c11KeyClass(ch), "%s signed by %s changed %s key %q, which is no resource of the signer", kind, name(signer), ch.Store, ch.Key)
			continue
		}
		for _, o := range owners {
			if o != signer {
				what := "modified"
				if ch.New == nil {
					what = "deleted"
				} else if ch.Old == nil {
					what = "created"
				}
				rc.Fail("C11/"+kind+"/foreign-record-changed/"+c11KeyClass(ch), "%s signed by %s %s %s key %q which belongs to %s", kind, name(signer), what, ch.Store, ch.Key, name(o))
			}
		}
	}
}

// ---------------------------------------------------------------- (b) histories

func runC11History(rc *RunCtx) {
	sp := storageParams(50, 100, 1024)
	sp.CollateralPrice = int64(1_000 + rc.Intn(5_000_000))
	const nAcc = 6
	perm := rc.Rng.Perm(nAcc - 1)
	O, S, T, F := perm[0]+1, perm[1]+1, perm[2]+1, perm[3]+1
	// a name of the owner that is already expired when the stranger acts (its record stays in the store)
	chain.SetBech32()
	ownerExpired := "lapsed.jkl"
	ownerAddr0 := sdk.AccAddress(chain.DeriveKey(rc.Seed, O).PubKey().Address()).String()
	c, err := chain.New(chain.Config{Seed: rc.Seed, NAcc: nAcc, Storage: sp,
		RnsNames: []rnstypes.Names{{Name: "lapsed", Tld: "jkl", Expires: 1, Value: ownerAddr0, Data: "{}", Subdomains: []*rnstypes.Names{}}},
		// feeds carried in the genesis file whose owner is not an address of this chain (another prefix, a plain label):
		// nobody can sign as their owner, so nobody may rewrite them
		Mutate: func(cdc codec.JSONCodec, gs app.GenesisState) {
			var og oracletypes.GenesisState
			cdc.MustUnmarshalJSON(gs[oracletypes.ModuleName], &og)
			og.FeedList = append(og.FeedList,
				oracletypes.Feed{Owner: "cosmos1arsaayyj5tash86mwqudmcs2fd5jt5zgp07gl8", Name: "genesisfeed", Data: `{"price":"1"}`},
				oracletypes.Feed{Owner: "oracle-admin", Name: "labelfeed", Data: `{"price":"2"}`})
			gs[oracletypes.ModuleName] = cdc.MustMarshalJSON(&og)
		}})
	if err != nil {
		rc.Abort("init: " + err.Error())
		return
	}
	defer c.Close()
	ob, sb, tb, fb := c.Accs[O].Bech, c.Accs[S].Bech, c.Accs[T].Bech, c.Accs[F].Bech
	name := func(a string) string {
		switch a {
		case ob:
			return "owner(" + a + ")"
		case sb:
			return "stranger(" + a + ")"
		case tb:
			return "third(" + a + ")"
		case fb:
			return "fourth(" + a + ")"
		}
		return a
	}
	rc.Logf("owner=acc%d %s stranger=acc%d %s third=acc%d fourth=acc%d", O, ob, S, sb, T, F)
	if _, err := c.BeginBlock(dur(6)); err != nil {
		rc.Abort("BeginBlock: " + err.Error())
		return
	}
	setupOK := true
	must := func(who int, what string, m sdk.Msg) chain.TxResult {
		r := c.DeliverAs(who, m)
		rc.Logf("setup acc%d %s: code=%d %.100q", who, what, r.Code, r.Log)
		if !r.OK() {
			setupOK = false
			rc.Abort("setup " + what + " failed: " + trunc(r.Log, 200))
		}
		return r
	}
	next := func() bool {
		if _, err := c.NextBlock(dur(int64(6 + rc.Intn(100)))); err != nil {
			rc.Abort("block: " + err.Error())
			return false
		}
		return true
	}

	// ---- the owner's resources
	ownerIP := "https://owner-node.example.com"
	ownerKB := "owner-keybase"
	must(O, "InitProvider", &storagetypes.MsgInitProvider{Creator: ob, Ip: ownerIP, Keybase: ownerKB, TotalSpace: 1_000_000_000_000})
	must(O, "AddClaimer", &storagetypes.MsgAddClaimer{Creator: ob, ClaimAddress: tb})
	ownerFeed := fmt.Sprintf("ownerfeed%d", rc.Intn(1000))
	must(O, "CreateFeed", &oracletypes.MsgCreateFeed{Creator: ob, Name: ownerFeed})
	must(O, "UpdateFeed", &oracletypes.MsgUpdateFeed{Creator: ob, Name: ownerFeed, Data: `{"price":"1.23"}`})
	var times []int64
	must(T, "CreateNotification third->owner", &notiftypes.MsgCreateNotification{Creator: tb, To: ob, Contents: `{"m":"hello"}`})
	times = append(times, c.Time.UnixMicro())
	must(S, "CreateNotification stranger->owner", &notiftypes.MsgCreateNotification{Creator: sb, To: ob, Contents: `{"m":"from stranger"}`})
	must(O, "BlockSenders", &notiftypes.MsgBlockSenders{Creator: ob, ToBlock: []string{fb}})
	ownerName := fmt.Sprintf("owner%d.jkl", rc.Intn(100000))
	ownerName2 := fmt.Sprintf("second%d.jkl", rc.Intn(100000))
	if rc.Chance(0.5) {
		must(O, "Register", &rnstypes.MsgRegister{Creator: ob, Name: ownerName, Years: 1, Data: "{}"})
	} else {
		must(O, "RegisterName", &rnstypes.MsgRegisterName{Creator: ob, Name: ownerName, Years: 2, Data: "{}", SetPrimary: rc.Chance(0.5)})
	}
	must(O, "RegisterName second", &rnstypes.MsgRegisterName{Creator: ob, Name: ownerName2, Years: 1, Data: "{}"})
	must(O, "MakePrimary", &rnstypes.MsgMakePrimary{Creator: ob, Name: ownerName})
	must(O, "BuyStorage", &storagetypes.MsgBuyStorage{Creator: ob, ForAddress: ob, DurationDays: 90, Bytes: 3_000_000_000_000, PaymentDenom: "ujkl"})
	if !setupOK {
		return
	}
	merkle := randBytes(rc.Rng, 64)
	pr := must(O, "PostFile", &storagetypes.MsgPostFile{Creator: ob, Merkle: merkle, FileSize: 1024, MaxProofs: 3, Note: "{}"})
	if !setupOK {
		return
	}
	ownerStart := c.Height
	var pfr storagetypes.MsgPostFileResponse
	if err := pr.MsgResponse(0, &pfr); err == nil {
		ownerStart = pfr.StartBlock
	}
	if !next() {
		return
	}
	must(T, "CreateNotification third->owner #2", &notiftypes.MsgCreateNotification{Creator: tb, To: ob, Contents: `{"m":"again"}`})
	times = append(times, c.Time.UnixMicro())

	// ---- optionally the stranger holds resources of the same kinds itself
	sProvider, sFeed, sName, sFile, sInbox := rc.Chance(0.5), rc.Chance(0.5), rc.Chance(0.5), rc.Chance(0.4), rc.Chance(0.5)
	strangerFeed := fmt.Sprintf("strangerfeed%d", rc.Intn(1000))
	strangerName := fmt.Sprintf("stranger%d.jkl", rc.Intn(100000))
	var sMerkle []byte
	var sStart int64
	if sProvider {
		must(S, "stranger InitProvider", &storagetypes.MsgInitProvider{Creator: sb, Ip: "https://stranger.example.com", Keybase: "s", TotalSpace: 5})
		if rc.Chance(0.5) {
			must(S, "stranger AddClaimer", &storagetypes.MsgAddClaimer{Creator: sb, ClaimAddress: tb})
		}
	}
	if sFeed {
		must(S, "stranger CreateFeed", &oracletypes.MsgCreateFeed{Creator: sb, Name: strangerFeed})
	}
	if sName {
		must(S, "stranger RegisterName", &rnstypes.MsgRegisterName{Creator: sb, Name: strangerName, Years: 1, Data: "{}", SetPrimary: true})
	}
	if sFile {
		must(S, "stranger BuyStorage", &storagetypes.MsgBuyStorage{Creator: sb, ForAddress: sb, DurationDays: 60, Bytes: 2_000_000_000_000, PaymentDenom: "ujkl"})
		if setupOK {
			sMerkle = randBytes(rc.Rng, 64)
			if rc.Chance(0.3) {
				sMerkle = merkle // same content as the owner's file
			}
			r := must(S, "stranger PostFile", &storagetypes.MsgPostFile{Creator: sb, Merkle: sMerkle, FileSize: 2048, MaxProofs: 2, Note: "{}"})
			sStart = c.Height
			var resp storagetypes.MsgPostFileResponse
			if err := r.MsgResponse(0, &resp); err == nil {
				sStart = resp.StartBlock
			}
		}
	}
	if sInbox {
		must(O, "CreateNotification owner->stranger", &notiftypes.MsgCreateNotification{Creator: ob, To: sb, Contents: `{"m":"to stranger"}`})
	}
	if !setupOK {
		return
	}
	times = append(times, c.Time.UnixMicro(), 0, 1)
	if !next() {
		return
	}

	// ---- baseline of the owner's records
	base := c11Observe(c)
	ownerKeys := 0
	for _, s := range c11Stores {
		for k, v := range base.kv[s] {
			if os, known := c11Owners(c, c11Change{Store: s, KVChange: chain.KVChange{Key: k, Old: v}}); known && len(os) == 1 && os[0] == ob {
				ownerKeys++
			}
		}
	}
	rc.Logf("baseline: owner holds %d records in the custom stores", ownerKeys)
	if ownerKeys < 9 {
		rc.Abort(fmt.Sprintf("setup produced only %d owner records", ownerKeys))
		return
	}

	// ---- the stranger's replay
	type kindT struct {
		name string
		w    int
		own  bool // does the stranger hold a resource of this kind right now?
		gen  func() sdk.Msg
	}
	pickS := func(xs ...string) string { return xs[rc.Intn(len(xs))] }
	strangerIsProvider := sProvider
	steps := 14 + rc.Intn(17)
	var sampleLines []string
	for i := 0; i < steps; i++ {
		kinds := []kindT{
			{"SetProviderIP", 2, strangerIsProvider, func() sdk.Msg {
				return &storagetypes.MsgSetProviderIP{Creator: sb, Ip: pickS(ownerIP, "https://"+ob+".example.com")}
			}},
			{"SetProviderKeybase", 2, strangerIsProvider, func() sdk.Msg {
				return &storagetypes.MsgSetProviderKeybase{Creator: sb, Keybase: pickS(ownerKB, ob)}
			}},
			{"SetProviderTotalSpace", 2, strangerIsProvider, func() sdk.Msg {
				return &storagetypes.MsgSetProviderTotalSpace{Creator: sb, Space: rc.Pick([]int64{0, 1, 1_000_000_000_000, -5})}
			}},
			{"AddClaimer", 2, strangerIsProvider, func() sdk.Msg {
				return &storagetypes.MsgAddClaimer{Creator: sb, ClaimAddress: pickS(ob, tb, sb, fb)}
			}},
			{"RemoveClaimer", 2, strangerIsProvider, func() sdk.Msg {
				return &storagetypes.MsgRemoveClaimer{Creator: sb, ClaimAddress: pickS(tb, tb, ob, fb)}
			}},
			{"InitProvider", 2, strangerIsProvider, func() sdk.Msg {
				return &storagetypes.MsgInitProvider{Creator: sb, Ip: ownerIP, Keybase: pickS(ownerKB, ob), TotalSpace: 1_000_000_000_000}
			}},
			{"ShutdownProvider", 2, strangerIsProvider, func() sdk.Msg { return &storagetypes.MsgShutdownProvider{Creator: sb} }},
			{"CreateFeed", 2, sFeed, func() sdk.Msg {
				return &oracletypes.MsgCreateFeed{Creator: sb, Name: pickS(ownerFeed, ownerFeed, strings.ToUpper(ownerFeed), " "+ownerFeed, ownerFeed+" ", strings.Title(ownerFeed), fmt.Sprintf("new%d", rc.Intn(5)), ob)}
			}},
			{"UpdateFeed", 4, sFeed, func() sdk.Msg {
				return &oracletypes.MsgUpdateFeed{Creator: sb, Name: pickS(ownerFeed, ownerFeed, ownerFeed, strings.ToUpper(ownerFeed), ownerFeed+" ", strangerFeed, "new0", "genesisfeed", "labelfeed", "./"+ownerFeed, "x/../"+ownerFeed), Data: pickS(`{"price":"0"}`, ob, "", `{"price":"1.23"}`, `{"price":"1.23"}`)} // the last two: the owner's own last update, replayed verbatim
			}},
			{"DeleteNotification", 6, sInbox, func() sdk.Msg {
				return &notiftypes.MsgDeleteNotification{Creator: sb, From: pickS(ob, ob, ob, tb, tb, sb, fb, "../"+ob+"/"+tb, "../"+ob+"/"+tb, "../"+ob+"/"+sb, "./"+tb, ob+"/"+tb, tb+"/../../"+ob+"/"+tb), Time: times[rc.Intn(len(times))]}
			}},
			{"BlockSenders", 2, false, func() sdk.Msg {
				l := [][]string{{ob}, {fb}, {ownerName}, {ob, tb}, {tb, sb}, {}}
				return &notiftypes.MsgBlockSenders{Creator: sb, ToBlock: l[rc.Intn(len(l))]}
			}},
			{"RegisterName", 2, sName, func() sdk.Msg {
				// the stranger registers the owner's lapsed name (anybody may) or tries one of its live names (nobody may);
				// whatever happens, the owner's primary-name pointer and live names are not the stranger's to move
				return &rnstypes.MsgRegisterName{Creator: sb, Name: pickS(ownerExpired, ownerExpired, ownerName, ownerName2), Years: 1, Data: "{}", SetPrimary: rc.Chance(0.6)}
			}},
			{"MakePrimary", 2, sName, func() sdk.Msg {
				return &rnstypes.MsgMakePrimary{Creator: sb, Name: pickS(ownerName, ownerName2, ownerExpired, ownerExpired, strangerName, strings.ToUpper(ownerName))}
			}},
			{"PostFile", 2, sFile, func() sdk.Msg {
				// the owner posts a new file in this block; the stranger then posts, in the same block, a file with the same
				// content root (or a leading part of it) in its own name, paid at once. Only the stranger's own records may appear
				m2 := randBytes(rc.Rng, 64)
				// (the owner pays at once, so that none of its baseline records changes; the stranger posts against a plan,
				// bought here if it has none, so that no record without an owner - a payment gauge - appears in its step)
				c.DeliverAs(O, &storagetypes.MsgPostFile{Creator: ob, Merkle: m2, FileSize: 2048, MaxProofs: 2, Expires: c.Height + 30000, Note: "{}"})
				if !sFile {
					if r := c.DeliverAs(S, &storagetypes.MsgBuyStorage{Creator: sb, ForAddress: sb, DurationDays: 60, Bytes: 2_000_000_000_000, PaymentDenom: "ujkl"}); r.OK() {
						sFile = true
					}
				}
				sm := m2
				switch rc.Intn(4) {
				case 0:
					sm = m2[:32]
				case 1:
					sm = m2[:1]
				}
				return &storagetypes.MsgPostFile{Creator: sb, Merkle: sm, FileSize: 1024, MaxProofs: 1, Note: "{}"}
			}},
			{"DeleteFile", 3, sFile, func() sdk.Msg {
				if sFile && rc.Chance(0.25) {
					return &storagetypes.MsgDeleteFile{Creator: sb, Merkle: sMerkle, Start: sStart}
				}
				return &storagetypes.MsgDeleteFile{Creator: sb, Merkle: merkle, Start: rc.Pick([]int64{ownerStart, ownerStart, ownerStart, sStart, 0})}
			}},
		}
		tot := 0
		for _, k := range kinds {
			tot += k.w
		}
		x := rc.Intn(tot)
		var k kindT
		for _, kk := range kinds {
			if x < kk.w {
				k = kk
				break
			}
			x -= kk.w
		}
		m := k.gen()
		pre := c11Observe(c)
		r := c.DeliverAs(S, m)
		post := c11Observe(c)
		rc.Eval(1)
		rc.Count("ni_msgs", 1)
		diff := c11KVDiff(pre, post)
		rc.Logf("step %d h=%d stranger %s -> code=%d %.80q; %d keys changed", i, c.Height, c11MsgString(m), r.Code, r.Log, len(diff))
		for _, ch := range diff {
			rc.Logf("    %s %q old=%dB new=%dB", ch.Store, ch.Key, len(ch.Old), len(ch.New))
		}
		c11CheckDiff(rc, c, k.name, sb, diff, name)
		if m.ValidateBasic() != nil {
			// stateless validation runs before the ante chain; such a transaction never reaches signature verification
			rc.Count("ni_failed_validate_basic", 1)
		} else if post.seq[S] != pre.seq[S]+1 {
			rc.Fail("C11/"+k.name+"/creator-signature-rejected", "stranger's own signature on its own %s did not pass the ante chain: %s", k.name, r.Log)
		}
		bd := chain.Diff(pre.bal, post.bal)
		for _, a := range []string{ob, tb, fb} {
			if m, ok := bd[a]; ok {
				rc.Fail("C11/"+k.name+"/foreign-balance-changed", "%s signed by %s changed the balance of %s by %v", k.name, name(sb), name(a), m)
			}
		}
		if !r.OK() && (len(diff) > 0 || len(bd) > 0) {
			rc.Fail("C11/"+k.name+"/failed-message-changed-state", "%s failed (code %d) yet %d store keys / %d balances changed", k.name, r.Code, len(diff), len(bd))
		}
		outcome := "rejected"
		if r.OK() {
			outcome = "no-op"
			if len(diff) > 0 {
				outcome = "changed-own-records"
			}
		}
		rc.NonTrivial(fmt.Sprintf("ni/%s/%s/stranger-holds-kind=%v", k.name, outcome, k.own))
		rc.Count("ni_"+outcome, 1)
		if len(sampleLines) < 8 {
			sampleLines = append(sampleLines, fmt.Sprintf("%s -> %s (%d keys changed)", k.name, outcome, len(diff)))
		}
		// track what the stranger holds now (for the signature only)
		if r.OK() {
			switch k.name {
			case "InitProvider":
				strangerIsProvider = true
			case "ShutdownProvider":
				strangerIsProvider = false
			case "CreateFeed":
				if mm := m.(*oracletypes.MsgCreateFeed); mm.Name == strangerFeed {
					sFeed = true
				}
			}
		}
		if rc.Chance(0.2) {
			if !next() {
				return
			}
		}
	}
	// ---- the owner's records are byte-identical
	final := c11Observe(c)
	rc.Eval(1)
	n := 0
	for _, s := range c11Stores {
		for k, v := range base.kv[s] {
			os, known := c11Owners(c, c11Change{Store: s, KVChange: chain.KVChange{Key: k, Old: v}})
			if !known || len(os) != 1 || os[0] != ob {
				continue
			}
			n++
			nv, ok := final.kv[s][k]
			if !ok {
				rc.Fail("C11/owner-record-gone/"+c11KeyClass(c11Change{Store: s, KVChange: chain.KVChange{Key: k}}), "after the stranger's messages the owner's record %s %q no longer exists", s, k)
			} else if string(nv) != string(v) {
				rc.Fail("C11/owner-record-modified/"+c11KeyClass(c11Change{Store: s, KVChange: chain.KVChange{Key: k}}), "after the stranger's messages the owner's record %s %q differs", s, k)
			}
		}
	}
	rc.Count("ni_owner_records_compared", n)
	if c.InBlock {
		if err := c.EndAndCommit(); err != nil {
			rc.Abort("EndBlock/Commit: " + err.Error())
			return
		}
	}
	rc.Sample(map[string]interface{}{"family": "history", "owner_records": ownerKeys, "steps": steps, "first_steps": sampleLines})
}
