package props

// C09 – bid escrow is conserved: each escrowed token is refunded or paid to the seller.
//
// Monitor: the rns world (rnsworld.go) keeps an escrow ledger per
// (bidder,name) from observed balance deltas and judges every message; the
// history generator is the one of C08 (c08.go).

func init() {
	Register(&Prop{
		ID:    "C09",
		Title: "Bid escrow is conserved: each escrowed token is refunded or paid to the seller",
		Cases: func(t string) int { return tierN(t, 300, 30000) },
		Run:   runRnsHistory,
		Rule: "case = one generated history of 20..32 rns messages by 4 accounts funded in two denominations (generator shared with C08: bids in ujkl and uatom, repeated bids by the same account on the same name with larger / smaller / equal / other-denomination / zero / negative / unaffordable amounts, bids on unregistered and expired names, cancels (also twice), accepts by owner / previous owner / stranger, transfers between bid and accept, registrations and purchases); " +
			"oracle evaluations = one per delivered message plus one escrow-invariant evaluation after every message and every BeginBlock (rns module balance per denomination == sum of the parsed prices of AllBids; a cancel refunds exactly what the model's ledger says the bidder escrowed for that name; an accept pays the acceptor exactly that; the bid is gone afterwards; register / buy leave the module balance unchanged; bids appear, change and disappear only through Bid / CancelBid / AcceptBid on their own key); " +
			"non-trivial signature = (Bid: number of earlier unrefunded bid messages of that (bidder,name) in {0,1,2+}, relation of the new amount to the previous one, name status, accepted/rejected | CancelBid: prior count, outcome | AcceptBid: prior count, signer role, name status, outcome | Register/Buy/Transfer: number of open bids on the name, outcome)",
		Assumptions: []string{
			"the model's escrow ledger is the net of what the bank moved between the bidder and the module account for that (bidder,name); an implementation that refunds or accumulates an earlier bid inside a new Bid is accepted as long as the open bid then equals the ledger",
			"nobody sends coins to the rns module account by other means (module accounts are blocked recipients)",
			"transaction fees are zero in the harness, so every balance delta of a transaction is an effect of its message",
		},
		MinNonTriv: 60,
	})
}
