package props

import (
	"bytes"
	"encoding/json"
	"fmt"
	"regexp"
	"sort"
	"strings"
	"unicode/utf8"

	"github.com/cosmos/cosmos-sdk/codec"
	sdk "github.com/cosmos/cosmos-sdk/types"

	"jkverif/chain"

	"github.com/jackalLabs/canine-chain/v4/app"
	"github.com/jackalLabs/canine-chain/v4/x/filetree"
	filetreetypes "github.com/jackalLabs/canine-chain/v4/x/filetree/types"
	"github.com/jackalLabs/canine-chain/v4/x/jklmint"
	minttypes "github.com/jackalLabs/canine-chain/v4/x/jklmint/types"
	"github.com/jackalLabs/canine-chain/v4/x/notifications"
	notiftypes "github.com/jackalLabs/canine-chain/v4/x/notifications/types"
	"github.com/jackalLabs/canine-chain/v4/x/oracle"
	oracletypes "github.com/jackalLabs/canine-chain/v4/x/oracle/types"
	"github.com/jackalLabs/canine-chain/v4/x/rns"
	rnstypes "github.com/jackalLabs/canine-chain/v4/x/rns/types"
	"github.com/jackalLabs/canine-chain/v4/x/storage"
	storagetypes "github.com/jackalLabs/canine-chain/v4/x/storage/types"
)

// ---------------------------------------------------------------- modules, stores, record kinds

// c19Module describes one custom module: the label used in signatures, the
// KV store name, the key in the genesis map and the proto package of its
// Query service.
type c19Module struct {
	Label, Store, Genesis, QueryPkg string
}

var c19Modules = []c19Module{
	{"storage", storagetypes.StoreKey, storagetypes.ModuleName, "storage"},
	{"rns", rnstypes.StoreKey, rnstypes.ModuleName, "rns"},
	{"filetree", filetreetypes.StoreKey, filetreetypes.ModuleName, "filetree"},
	{"oracle", oracletypes.StoreKey, oracletypes.ModuleName, "oracle"},
	{"notifications", notiftypes.StoreKey, notiftypes.ModuleName, "notifications"},
	{"jklmint", minttypes.StoreKey, minttypes.ModuleName, "jklmint"},
}

// Key prefixes per store, enumerated from x/*/types/key*.go and keys.go.
// Kind = the label used in signatures and in the per-prefix record counts.
var c19Prefixes = map[string][][2]string{
	"storage": {
		{storagetypes.FilePrimaryKeyPrefix, "FilesByMerkle"},
		{storagetypes.FileSecondaryKeyPrefix, "FilesByOwner"},
		{storagetypes.ProofKeyPrefix, "FileProof"},
		{storagetypes.ProvidersKeyPrefix, "Providers"},
		{storagetypes.ActiveProvidersKeyPrefix, "ActiveProviders"},
		{storagetypes.CollateralKeyPrefix, "Collateral"},
		{storagetypes.StoragePaymentInfoKeyPrefix, "StoragePaymentInfo"},
		{storagetypes.PaymentGaugeKeyPrefix, "PaymentGauge"},
		{storagetypes.AttestationKeyPrefix, "Attestation"},
		{storagetypes.ReportKeyPrefix, "Report"},
		{storagetypes.ClientUsageKeyPrefix, "ClientUsage"},
		{storagetypes.PayBlocksKeyPrefix, "PayBlocks"},
		{storagetypes.LegacyActiveDealsKeyPrefix, "LegacyActiveDeals"},
	},
	"rns": {
		{rnstypes.NamesKeyPrefix, "Names"},
		{rnstypes.PrimaryNameKeyPrefix, "PrimaryName"},
		{rnstypes.BidsKeyPrefix, "Bids"},
		{rnstypes.ForsaleKeyPrefix, "Forsale"},
		{rnstypes.InitKeyPrefix, "Init"},
		{rnstypes.WhoisKeyPrefix, "Whois"},
	},
	"filetree": {
		{filetreetypes.FilesKeyPrefix, "Files"},
		{filetreetypes.PubkeyKeyPrefix, "Pubkey"},
		{filetreetypes.TrackerKey, "Tracker"},
	},
	"oracle": {
		{oracletypes.FeedKeyPrefix, "Feed"},
	},
	"jklmint": {
		{minttypes.LastBlockMinted, "MintedBlock"},
		{string(minttypes.MinterKey), "Minter"},
	},
}

// c19Required are the 20 record kinds that messages / BeginBlock of the current
// code write (Whois, ActiveProviders, ClientUsage, PayBlocks, LegacyActiveDeals,
// Tracker and Minter are never written outside InitGenesis / at all).
var c19Required = []string{
	"storage/FilesByMerkle", "storage/FilesByOwner", "storage/FileProof", "storage/Providers", "storage/Collateral",
	"storage/StoragePaymentInfo", "storage/PaymentGauge", "storage/Attestation", "storage/Report",
	"rns/Names", "rns/PrimaryName", "rns/Bids", "rns/Forsale", "rns/Init",
	"filetree/Files", "filetree/Pubkey",
	"oracle/Feed",
	"notifications/Notification", "notifications/Block",
	"jklmint/MintedBlock",
}

var c19SigSafe = regexp.MustCompile(`[^A-Za-z0-9_]+`)

// c19Kind classifies a raw store key by the prefix table.
func c19Kind(module, key string) string {
	if module == "notifications" {
		// notifications and block entries share one prefix; a notification key
		// is "<to>/<from>/<time>", a block entry "<owner>/<blocked>" (addresses contain no '/').
		if strings.HasPrefix(key, notiftypes.NotificationsKeyPrefix) {
			rest := key[len(notiftypes.NotificationsKeyPrefix):]
			switch strings.Count(rest, "/") {
			case 2:
				return "Notification"
			case 1:
				return "Block"
			}
			return "Notification_malformed"
		}
	}
	for _, p := range c19Prefixes[module] {
		if strings.HasPrefix(key, p[0]) {
			return p[1]
		}
	}
	// unknown prefix: up to the first '/'
	k := key
	if i := strings.Index(k, "/"); i >= 0 {
		k = k[:i]
	}
	k = c19SigSafe.ReplaceAllString(k, "_")
	if len(k) > 24 {
		k = k[:24]
	}
	return "other_" + k
}

func c19Printable(b []byte, max int) string {
	s := make([]byte, 0, len(b))
	for _, ch := range b {
		if ch >= 32 && ch < 127 {
			s = append(s, ch)
		} else {
			s = append(s, '.')
		}
	}
	if len(s) > max {
		return string(s[:max]) + fmt.Sprintf("...(%dB)", len(b))
	}
	return string(s)
}

// ---------------------------------------------------------------- state observation

type c19Answer struct {
	Err  string
	JSON string // codec JSON of the response (deterministic, also for map fields)
	Bin  string // protobuf encoding of the response; "" for responses with map fields (encoding order not deterministic)
}

type c19Query struct {
	Module, Rpc, Arg string
	Req              codec.ProtoMarshaler
	New              func() codec.ProtoMarshaler
	Norm             func(codec.ProtoMarshaler)
}

type c19State struct {
	KV      map[string]map[string][]byte // module label -> raw key -> value
	Counts  map[string]int               // "module/Kind" -> records
	Answers []c19Answer                  // parallel to the query plan
	Export  map[string]json.RawMessage   // module label -> genesis section
}

func c19DumpKV(c *chain.Chain) (map[string]map[string][]byte, map[string]int) {
	kv := map[string]map[string][]byte{}
	counts := map[string]int{}
	for _, m := range c19Modules {
		kv[m.Label] = c.KV(m.Store)
		for k := range kv[m.Label] {
			counts[m.Label+"/"+c19Kind(m.Label, k)]++
		}
	}
	return kv, counts
}

func c19Path(pkg, rpc string) string { return "/canine_chain." + pkg + ".Query/" + rpc }

func c19Ask(c *chain.Chain, plan []c19Query) []c19Answer {
	out := make([]c19Answer, len(plan))
	pkg := map[string]string{}
	for _, m := range c19Modules {
		pkg[m.Label] = m.QueryPkg
	}
	for i, q := range plan {
		resp := q.New()
		if err := c.GRPC(c19Path(pkg[q.Module], q.Rpc), q.Req, resp); err != nil {
			out[i].Err = err.Error()
			continue
		}
		if q.Norm != nil {
			q.Norm(resp)
		}
		bz, err := c.Enc.MarshalJSON(resp)
		if err != nil {
			out[i].Err = "marshal: " + err.Error()
			continue
		}
		out[i].JSON = string(bz)
		if _, hasMap := resp.(*storagetypes.QueryStorageStatsResponse); !hasMap {
			if bin, err := resp.Marshal(); err == nil {
				out[i].Bin = string(bin)
			}
		}
	}
	return out
}

// c19ModuleExport calls the six modules' own ExportGenesis on the chain's
// current observation context and marshals the result exactly as
// AppModule.ExportGenesis does.
func c19ModuleExport(c *chain.Chain) (out map[string]json.RawMessage, err error) {
	defer func() {
		if r := recover(); r != nil {
			err = fmt.Errorf("module ExportGenesis panicked: %v", r)
		}
	}()
	ctx := c.Ctx()
	cdc := c.Enc
	out = map[string]json.RawMessage{
		"storage":       cdc.MustMarshalJSON(storage.ExportGenesis(ctx, c.App.StorageKeeper)),
		"rns":           cdc.MustMarshalJSON(rns.ExportGenesis(ctx, c.App.RnsKeeper)),
		"filetree":      cdc.MustMarshalJSON(filetree.ExportGenesis(ctx, c.App.FileTreeKeeper)),
		"oracle":        cdc.MustMarshalJSON(oracle.ExportGenesis(ctx, c.App.OracleKeeper)),
		"notifications": cdc.MustMarshalJSON(notifications.ExportGenesis(ctx, c.App.NotificationsKeeper)),
		"jklmint":       cdc.MustMarshalJSON(jklmint.ExportGenesis(ctx, c.App.MintKeeper)),
	}
	return out, nil
}

// c19Sections extracts the six custom sections of a full exported app state.
func c19Sections(appState json.RawMessage) (map[string]json.RawMessage, app.GenesisState, error) {
	var gs app.GenesisState
	if err := json.Unmarshal(appState, &gs); err != nil {
		return nil, nil, err
	}
	out := map[string]json.RawMessage{}
	for _, m := range c19Modules {
		sec, ok := gs[m.Genesis]
		if !ok {
			return nil, gs, fmt.Errorf("exported app state has no %q section", m.Genesis)
		}
		out[m.Label] = sec
	}
	return out, gs, nil
}

// ---------------------------------------------------------------- query plan

// c19Plan derives the fixed list of queries from the records the source chain
// reports through its list queries (so that every record is also read through
// its single-record query) plus the given accounts.
func c19Plan(c *chain.Chain, accounts []string, maxHeight int64) ([]c19Query, error) {
	var plan []c19Query
	add := func(module, rpc, arg string, req codec.ProtoMarshaler, mk func() codec.ProtoMarshaler) {
		plan = append(plan, c19Query{Module: module, Rpc: rpc, Arg: arg, Req: req, New: mk})
	}
	q := func(pkg, rpc string, req, resp codec.ProtoMarshaler) error {
		return c.GRPC(c19Path(pkg, rpc), req, resp)
	}

	// ---- storage
	add("storage", "Params", "", &storagetypes.QueryParams{}, func() codec.ProtoMarshaler { return &storagetypes.QueryParamsResponse{} })
	add("storage", "AllFiles", "", &storagetypes.QueryAllFiles{Pagination: pg()}, func() codec.ProtoMarshaler { return &storagetypes.QueryAllFilesResponse{} })
	add("storage", "AllProofs", "", &storagetypes.QueryAllProofs{Pagination: pg()}, func() codec.ProtoMarshaler { return &storagetypes.QueryAllProofsResponse{} })
	add("storage", "AllProviders", "", &storagetypes.QueryAllProviders{Pagination: pg()}, func() codec.ProtoMarshaler { return &storagetypes.QueryAllProvidersResponse{} })
	add("storage", "AllAttestations", "", &storagetypes.QueryAllAttestations{Pagination: pg()}, func() codec.ProtoMarshaler { return &storagetypes.QueryAllAttestationsResponse{} })
	add("storage", "AllReports", "", &storagetypes.QueryAllReports{Pagination: pg()}, func() codec.ProtoMarshaler { return &storagetypes.QueryAllReportsResponse{} })
	add("storage", "AllStoragePaymentInfo", "", &storagetypes.QueryAllStoragePaymentInfo{Pagination: pg()}, func() codec.ProtoMarshaler { return &storagetypes.QueryAllStoragePaymentInfoResponse{} })
	add("storage", "Gauges", "", &storagetypes.QueryAllGauges{Pagination: pg()}, func() codec.ProtoMarshaler { return &storagetypes.QueryAllGaugesResponse{} })
	plan = append(plan, c19Query{Module: "storage", Rpc: "ActiveProviders", Req: &storagetypes.QueryActiveProviders{},
		New: func() codec.ProtoMarshaler { return &storagetypes.QueryActiveProvidersResponse{} },
		// the handler shuffles the list with a height-seeded PRNG; the set is what the state determines
		Norm: func(m codec.ProtoMarshaler) {
			r := m.(*storagetypes.QueryActiveProvidersResponse)
			sort.Slice(r.Providers, func(i, j int) bool { return r.Providers[i].Address < r.Providers[j].Address })
		}})
	add("storage", "StorageStats", "", &storagetypes.QueryStorageStats{}, func() codec.ProtoMarshaler { return &storagetypes.QueryStorageStatsResponse{} })
	add("storage", "NetworkSize", "", &storagetypes.QueryNetworkSize{}, func() codec.ProtoMarshaler { return &storagetypes.QueryNetworkSizeResponse{} })
	add("storage", "AvailableSpace", "", &storagetypes.QueryAvailableSpace{}, func() codec.ProtoMarshaler { return &storagetypes.QueryAvailableSpaceResponse{} })
	add("storage", "PriceCheck", "", &storagetypes.QueryPriceCheck{Duration: 24 * 90, Bytes: 5_000_000_000}, func() codec.ProtoMarshaler { return &storagetypes.QueryPriceCheckResponse{} })

	var files storagetypes.QueryAllFilesResponse
	if err := q("storage", "AllFiles", &storagetypes.QueryAllFiles{Pagination: pg()}, &files); err != nil {
		return nil, err
	}
	owners := map[string]bool{}
	for _, f := range files.Files {
		arg := fileKey(f)
		add("storage", "File", arg, &storagetypes.QueryFile{Merkle: f.Merkle, Owner: f.Owner, Start: f.Start}, func() codec.ProtoMarshaler { return &storagetypes.QueryFileResponse{} })
		add("storage", "AllFilesByMerkle", arg, &storagetypes.QueryAllFilesByMerkle{Merkle: f.Merkle, Pagination: pg()}, func() codec.ProtoMarshaler { return &storagetypes.QueryAllFilesByMerkleResponse{} })
		add("storage", "FindFile", arg, &storagetypes.QueryFindFile{Merkle: f.Merkle}, func() codec.ProtoMarshaler { return &storagetypes.QueryFindFileResponse{} })
		owners[f.Owner] = true
	}
	for _, o := range sortedSet(owners) {
		add("storage", "AllFilesByOwner", o, &storagetypes.QueryAllFilesByOwner{Owner: o, Pagination: pg()}, func() codec.ProtoMarshaler { return &storagetypes.QueryAllFilesByOwnerResponse{} })
	}
	var proofs storagetypes.QueryAllProofsResponse
	if err := q("storage", "AllProofs", &storagetypes.QueryAllProofs{Pagination: pg()}, &proofs); err != nil {
		return nil, err
	}
	for _, p := range proofs.Proofs {
		add("storage", "Proof", proofKey(p), &storagetypes.QueryProof{ProviderAddress: p.Prover, Merkle: p.Merkle, Owner: p.Owner, Start: p.Start}, func() codec.ProtoMarshaler { return &storagetypes.QueryProofResponse{} })
	}
	var provs storagetypes.QueryAllProvidersResponse
	if err := q("storage", "AllProviders", &storagetypes.QueryAllProviders{Pagination: pg()}, &provs); err != nil {
		return nil, err
	}
	for _, p := range provs.Providers {
		add("storage", "Provider", p.Address, &storagetypes.QueryProvider{Address: p.Address}, func() codec.ProtoMarshaler { return &storagetypes.QueryProviderResponse{} })
		add("storage", "ProofsByAddress", p.Address, &storagetypes.QueryProofsByAddress{ProviderAddress: p.Address, Pagination: pg()}, func() codec.ProtoMarshaler { return &storagetypes.QueryProofsByAddressResponse{} })
		add("storage", "OpenFiles", p.Address, &storagetypes.QueryOpenFiles{ProviderAddress: p.Address, Pagination: pg()}, func() codec.ProtoMarshaler { return &storagetypes.QueryAllFilesResponse{} })
		add("storage", "FreeSpace", p.Address, &storagetypes.QueryFreeSpace{Address: p.Address}, func() codec.ProtoMarshaler { return &storagetypes.QueryFreeSpaceResponse{} })
		add("storage", "StoreCount", p.Address, &storagetypes.QueryStoreCount{Address: p.Address}, func() codec.ProtoMarshaler { return &storagetypes.QueryStoreCountResponse{} })
	}
	var atts storagetypes.QueryAllAttestationsResponse
	if err := q("storage", "AllAttestations", &storagetypes.QueryAllAttestations{Pagination: pg()}, &atts); err != nil {
		return nil, err
	}
	for _, a := range atts.Attestations {
		add("storage", "Attestation", a.Prover, &storagetypes.QueryAttestation{Prover: a.Prover, Merkle: a.Merkle, Owner: a.Owner, Start: a.Start}, func() codec.ProtoMarshaler { return &storagetypes.QueryAttestationResponse{} })
	}
	var reps storagetypes.QueryAllReportsResponse
	if err := q("storage", "AllReports", &storagetypes.QueryAllReports{Pagination: pg()}, &reps); err != nil {
		return nil, err
	}
	for _, a := range reps.Reports {
		add("storage", "Report", a.Prover, &storagetypes.QueryReport{Prover: a.Prover, Merkle: a.Merkle, Owner: a.Owner, Start: a.Start}, func() codec.ProtoMarshaler { return &storagetypes.QueryReportResponse{} })
	}
	var infos storagetypes.QueryAllStoragePaymentInfoResponse
	if err := q("storage", "AllStoragePaymentInfo", &storagetypes.QueryAllStoragePaymentInfo{Pagination: pg()}, &infos); err != nil {
		return nil, err
	}
	for _, p := range infos.StoragePaymentInfo {
		add("storage", "StoragePaymentInfo", p.Address, &storagetypes.QueryStoragePaymentInfo{Address: p.Address}, func() codec.ProtoMarshaler { return &storagetypes.QueryStoragePaymentInfoResponse{} })
		add("storage", "GetClientFreeSpace", p.Address, &storagetypes.QueryClientFreeSpace{Address: p.Address}, func() codec.ProtoMarshaler { return &storagetypes.QueryClientFreeSpaceResponse{} })
		add("storage", "GetPayData", p.Address, &storagetypes.QueryPayData{Address: p.Address}, func() codec.ProtoMarshaler { return &storagetypes.QueryPayDataResponse{} })
		add("storage", "FileUploadCheck", p.Address, &storagetypes.QueryFileUploadCheck{Address: p.Address, Bytes: 1000}, func() codec.ProtoMarshaler { return &storagetypes.QueryFileUploadCheckResponse{} })
	}

	// ---- rns
	add("rns", "Params", "", &rnstypes.QueryParams{}, func() codec.ProtoMarshaler { return &rnstypes.QueryParamsResponse{} })
	add("rns", "AllNames", "", &rnstypes.QueryAllNames{Pagination: pg()}, func() codec.ProtoMarshaler { return &rnstypes.QueryAllNamesResponse{} })
	add("rns", "AllBids", "", &rnstypes.QueryAllBids{Pagination: pg()}, func() codec.ProtoMarshaler { return &rnstypes.QueryAllBidsResponse{} })
	add("rns", "AllForSale", "", &rnstypes.QueryAllForSale{Pagination: pg()}, func() codec.ProtoMarshaler { return &rnstypes.QueryAllForSaleResponse{} })
	add("rns", "AllInits", "", &rnstypes.QueryAllInits{Pagination: pg()}, func() codec.ProtoMarshaler { return &rnstypes.QueryAllInitsResponse{} })
	var names rnstypes.QueryAllNamesResponse
	if err := q("rns", "AllNames", &rnstypes.QueryAllNames{Pagination: pg()}, &names); err != nil {
		return nil, err
	}
	for _, n := range names.Name {
		full := n.Name + "." + n.Tld
		add("rns", "Name", full, &rnstypes.QueryName{Name: full}, func() codec.ProtoMarshaler { return &rnstypes.QueryNameResponse{} })
	}
	var bids rnstypes.QueryAllBidsResponse
	if err := q("rns", "AllBids", &rnstypes.QueryAllBids{Pagination: pg()}, &bids); err != nil {
		return nil, err
	}
	for _, b := range bids.Bids {
		add("rns", "Bid", b.Index, &rnstypes.QueryBid{Name: b.Index}, func() codec.ProtoMarshaler { return &rnstypes.QueryBidResponse{} })
	}
	var sales rnstypes.QueryAllForSaleResponse
	if err := q("rns", "AllForSale", &rnstypes.QueryAllForSale{Pagination: pg()}, &sales); err != nil {
		return nil, err
	}
	for _, s := range sales.ForSale {
		add("rns", "ForSale", s.Name, &rnstypes.QueryForSale{Name: s.Name}, func() codec.ProtoMarshaler { return &rnstypes.QueryForSaleResponse{} })
	}
	for _, a := range accounts {
		add("rns", "Init", a, &rnstypes.QueryInit{Address: a}, func() codec.ProtoMarshaler { return &rnstypes.QueryInitResponse{} })
		add("rns", "ListOwnedNames", a, &rnstypes.QueryListOwnedNames{Address: a, Pagination: pg()}, func() codec.ProtoMarshaler { return &rnstypes.QueryListOwnedNamesResponse{} })
		add("rns", "PrimaryName", a, &rnstypes.QueryPrimaryName{Owner: a}, func() codec.ProtoMarshaler { return &rnstypes.QueryPrimaryNameResponse{} })
	}

	// ---- filetree
	add("filetree", "Params", "", &filetreetypes.QueryParams{}, func() codec.ProtoMarshaler { return &filetreetypes.QueryParamsResponse{} })
	add("filetree", "AllFiles", "", &filetreetypes.QueryAllFiles{Pagination: pg()}, func() codec.ProtoMarshaler { return &filetreetypes.QueryAllFilesResponse{} })
	add("filetree", "AllPubKeys", "", &filetreetypes.QueryAllPubKeys{Pagination: pg()}, func() codec.ProtoMarshaler { return &filetreetypes.QueryAllPubKeysResponse{} })
	var ftf filetreetypes.QueryAllFilesResponse
	if err := q("filetree", "AllFiles", &filetreetypes.QueryAllFiles{Pagination: pg()}, &ftf); err != nil {
		return nil, err
	}
	for _, f := range ftf.Files {
		add("filetree", "File", f.Address, &filetreetypes.QueryFile{Address: f.Address, OwnerAddress: f.Owner}, func() codec.ProtoMarshaler { return &filetreetypes.QueryFileResponse{} })
	}
	var pks filetreetypes.QueryAllPubKeysResponse
	if err := q("filetree", "AllPubKeys", &filetreetypes.QueryAllPubKeys{Pagination: pg()}, &pks); err != nil {
		return nil, err
	}
	for _, p := range pks.PubKey {
		add("filetree", "PubKey", p.Address, &filetreetypes.QueryPubKey{Address: p.Address}, func() codec.ProtoMarshaler { return &filetreetypes.QueryPubKeyResponse{} })
	}

	// ---- oracle
	add("oracle", "Params", "", &oracletypes.QueryParams{}, func() codec.ProtoMarshaler { return &oracletypes.QueryParamsResponse{} })
	add("oracle", "AllFeeds", "", &oracletypes.QueryAllFeeds{Pagination: pg()}, func() codec.ProtoMarshaler { return &oracletypes.QueryAllFeedsResponse{} })
	var feeds oracletypes.QueryAllFeedsResponse
	if err := q("oracle", "AllFeeds", &oracletypes.QueryAllFeeds{Pagination: pg()}, &feeds); err != nil {
		return nil, err
	}
	for _, f := range feeds.Feed {
		add("oracle", "Feed", f.Name, &oracletypes.QueryFeed{Name: f.Name}, func() codec.ProtoMarshaler { return &oracletypes.QueryFeedResponse{} })
	}

	// ---- notifications
	add("notifications", "Params", "", &notiftypes.QueryParams{}, func() codec.ProtoMarshaler { return &notiftypes.QueryParamsResponse{} })
	add("notifications", "AllNotifications", "", &notiftypes.QueryAllNotifications{Pagination: pg()}, func() codec.ProtoMarshaler { return &notiftypes.QueryAllNotificationsResponse{} })
	var nots notiftypes.QueryAllNotificationsResponse
	if err := q("notifications", "AllNotifications", &notiftypes.QueryAllNotifications{Pagination: pg()}, &nots); err != nil {
		return nil, err
	}
	for _, n := range nots.Notifications {
		add("notifications", "Notification", fmt.Sprintf("%s/%s/%d", n.To, n.From, n.Time), &notiftypes.QueryNotification{To: n.To, From: n.From, Time: n.Time}, func() codec.ProtoMarshaler { return &notiftypes.QueryNotificationResponse{} })
	}
	for _, a := range accounts {
		add("notifications", "AllNotificationsByAddress", a, &notiftypes.QueryAllNotificationsByAddress{To: a, Pagination: pg()}, func() codec.ProtoMarshaler { return &notiftypes.QueryAllNotificationsByAddressResponse{} })
	}

	// ---- jklmint
	add("jklmint", "Params", "", &minttypes.QueryParams{}, func() codec.ProtoMarshaler { return &minttypes.QueryParamsResponse{} })
	add("jklmint", "Inflation", "", &minttypes.QueryInflation{}, func() codec.ProtoMarshaler { return &minttypes.QueryInflationResponse{} })
	for h := int64(1); h <= maxHeight; h++ {
		add("jklmint", "MintedTokens", fmt.Sprint(h), &minttypes.QueryMintedTokens{Block: h}, func() codec.ProtoMarshaler { return &minttypes.QueryMintedTokensResponse{} })
	}
	return plan, nil
}

func sortedSet(m map[string]bool) []string {
	var out []string
	for k := range m {
		out = append(out, k)
	}
	sort.Strings(out)
	return out
}

// ---------------------------------------------------------------- comparison

type c19Finding struct {
	Sig    string
	Detail string
}

type c19Agg struct {
	n     int
	first string
}

func c19AddAgg(m map[string]*c19Agg, sig, example string) {
	a := m[sig]
	if a == nil {
		a = &c19Agg{first: example}
		m[sig] = a
	}
	a.n++
}

func c19Flush(m map[string]*c19Agg, what string) []c19Finding {
	var sigs []string
	for s := range m {
		sigs = append(sigs, s)
	}
	sort.Strings(sigs)
	var out []c19Finding
	for _, s := range sigs {
		out = append(out, c19Finding{Sig: s, Detail: fmt.Sprintf("%d %s; first: %s", m[s].n, what, m[s].first)})
	}
	return out
}

// c19CompareKV: a key present before and absent after -> lost; present with a
// different value -> changed; present only after -> extra.
//
// poisoned / poisonExtra name the records the workload wrote with a string that
// is not valid UTF-8 (and the keys under which a JSON genesis re-creates them);
// differences on exactly those records are reported under C19/utf8/... so that
// they stay apart from losses of whole record kinds.
func c19CompareKV(pre, post map[string]map[string][]byte, poisoned, poisonExtra map[string]map[string]bool) (fs []c19Finding, evals int) {
	sig := func(class, module, key string) string {
		if (class != "extra" && poisoned[module][key]) || (class == "extra" && poisonExtra[module][key]) {
			return "C19/utf8/" + class + "/" + module + "/" + c19Kind(module, key)
		}
		return "C19/" + class + "/" + module + "/" + c19Kind(module, key)
	}
	lost, changed, extra := map[string]*c19Agg{}, map[string]*c19Agg{}, map[string]*c19Agg{}
	for _, m := range c19Modules {
		a, b := pre[m.Label], post[m.Label]
		keys := make([]string, 0, len(a))
		for k := range a {
			keys = append(keys, k)
		}
		sort.Strings(keys)
		for _, k := range keys {
			evals++
			v := a[k]
			nv, ok := b[k]
			switch {
			case !ok:
				c19AddAgg(lost, sig("lost", m.Label, k), fmt.Sprintf("key %q (value %q) exists in the %s store before export and is absent after import", c19Printable([]byte(k), 160), c19Printable(v, 80), m.Store))
			case !bytes.Equal(v, nv):
				c19AddAgg(changed, sig("changed", m.Label, k), fmt.Sprintf("key %q: value before %q, after import %q", c19Printable([]byte(k), 160), c19Printable(v, 120), c19Printable(nv, 120)))
			}
		}
		keys = keys[:0]
		for k := range b {
			if _, ok := a[k]; !ok {
				keys = append(keys, k)
			}
		}
		sort.Strings(keys)
		for _, k := range keys {
			evals++
			c19AddAgg(extra, sig("extra", m.Label, k), fmt.Sprintf("key %q (value %q) does not exist before export and exists in the %s store after import", c19Printable([]byte(k), 160), c19Printable(b[k], 80), m.Store))
		}
	}
	fs = append(fs, c19Flush(lost, "record(s) lost")...)
	fs = append(fs, c19Flush(changed, "record(s) changed")...)
	fs = append(fs, c19Flush(extra, "record(s) appeared")...)
	return fs, evals
}

// c19CompareAnswers: a query that answered before export must answer with the same value afterwards.
func c19CompareAnswers(plan []c19Query, pre, post []c19Answer) (fs []c19Finding, evals, unanswered int) {
	diff := map[string]*c19Agg{}
	for i, q := range plan {
		if pre[i].Err != "" {
			unanswered++
			continue
		}
		evals++
		sig := "C19/query-differs/" + q.Module + "/" + q.Rpc
		same := post[i].Err == "" && post[i].JSON == pre[i].JSON && post[i].Bin == pre[i].Bin
		if same {
			continue
		}
		// an answer that carried a string with invalid UTF-8 (rendered \ufffd by the JSON codec) and differs only by
		// that replacement, or a lookup by such a string that no longer finds its record, is the UTF-8 defect
		normU := func(s string) string { return strings.ReplaceAll(s, `\ufffd`, "\uFFFD") }
		if (post[i].Err != "" && !utf8.ValidString(q.Arg)) ||
			(post[i].Err == "" && strings.Contains(normU(pre[i].JSON), "\uFFFD") && normU(pre[i].JSON) == normU(post[i].JSON)) {
			sig = "C19/utf8/query-differs/" + q.Module + "/" + q.Rpc
		}
		if post[i].Err != "" {
			c19AddAgg(diff, sig, fmt.Sprintf("%s(%s) answered %s before export and fails after import: %s", q.Rpc, c19Printable([]byte(q.Arg), 200), c19Short(pre[i].JSON, 200), post[i].Err))
		} else {
			c19AddAgg(diff, sig, fmt.Sprintf("%s(%s) answered %s before export and %s after import", q.Rpc, c19Printable([]byte(q.Arg), 200), c19Short(pre[i].JSON, 200), c19Short(post[i].JSON, 200)))
		}
	}
	return c19Flush(diff, "answer(s) differ"), evals, unanswered
}

func c19Short(s string, n int) string {
	if len(s) > n {
		return s[:n] + fmt.Sprintf("...(%dB)", len(s))
	}
	return s
}

func c19Canon(raw json.RawMessage) (string, interface{}) {
	if len(raw) == 0 {
		return "null", nil
	}
	var v interface{}
	d := json.NewDecoder(bytes.NewReader(raw))
	d.UseNumber()
	if err := d.Decode(&v); err != nil {
		return string(raw), nil
	}
	// an absent / null list and an empty list denote the same genesis
	if l, ok := v.([]interface{}); ok && len(l) == 0 {
		v = nil
	}
	bz, _ := json.Marshal(v)
	return string(bz), v
}

// c19CompareExports compares two genesis sections field by field.
func c19CompareExports(first, second map[string]json.RawMessage) (fs []c19Finding, evals int) {
	for _, m := range c19Modules {
		var a, b map[string]json.RawMessage
		if err := json.Unmarshal(first[m.Label], &a); err != nil {
			fs = append(fs, c19Finding{"C19/reexport-differs/" + m.Label + "/_section", "first export section is not a JSON object: " + err.Error()})
			continue
		}
		if err := json.Unmarshal(second[m.Label], &b); err != nil {
			fs = append(fs, c19Finding{"C19/reexport-differs/" + m.Label + "/_section", "second export section is not a JSON object: " + err.Error()})
			continue
		}
		fields := map[string]bool{}
		for k := range a {
			fields[k] = true
		}
		for k := range b {
			fields[k] = true
		}
		for _, f := range sortedSet(fields) {
			evals++
			ca, va := c19Canon(a[f])
			cb, vb := c19Canon(b[f])
			if ca == cb {
				continue
			}
			detail := fmt.Sprintf("first export %s, export of the re-imported state %s", c19Short(ca, 240), c19Short(cb, 240))
			la, oka := va.([]interface{})
			lb, okb := vb.([]interface{})
			if (oka || va == nil) && (okb || vb == nil) {
				detail = fmt.Sprintf("list of %d element(s) in the first export, %d in the export of the re-imported state; ", len(la), len(lb)) + detail
			}
			fs = append(fs, c19Finding{"C19/reexport-differs/" + m.Label + "/" + c19SigSafe.ReplaceAllString(f, "_"), detail})
		}
	}
	return fs, evals
}

// c19Validate runs every module's ValidateGenesis on an exported app state.
func c19Validate(cdc codec.JSONCodec, gs app.GenesisState) (fs []c19Finding, evals int) {
	txc := app.MakeEncodingConfig().TxConfig
	label := map[string]string{}
	for _, m := range c19Modules {
		label[m.Genesis] = m.Label
	}
	var names []string
	for n := range app.ModuleBasics {
		names = append(names, n)
	}
	sort.Strings(names)
	for _, n := range names {
		evals++
		var err error
		func() {
			defer func() {
				if r := recover(); r != nil {
					err = fmt.Errorf("ValidateGenesis panicked: %v", r)
				}
			}()
			err = app.ModuleBasics[n].ValidateGenesis(cdc, txc, gs[n])
		}()
		if err != nil {
			l := label[n]
			if l == "" {
				l = "sdk-" + n
			}
			fs = append(fs, c19Finding{"C19/export-invalid/" + l, fmt.Sprintf("ValidateGenesis of module %q rejects the state the application itself exported: %v", n, err)})
		}
	}
	return fs, evals
}

var c19StackMod = regexp.MustCompile(`/x/([a-z]+)[./]`)

// c19PanicModule attributes an InitChain panic to the innermost module frame
// (function names look like ".../x/storage.InitGenesis", file names like ".../x/storage/genesis.go").
func c19PanicModule(stack string) string {
	m := c19StackMod.FindStringSubmatch(stack)
	if m == nil {
		return "app"
	}
	for _, cm := range c19Modules {
		if cm.Label == m[1] {
			return cm.Label
		}
	}
	return "sdk-" + m[1]
}

var _ = sdk.AccAddress{}
