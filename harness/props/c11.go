package props

import (
	"context"
	"fmt"
	"reflect"
	"sort"
	"strings"

	codectypes "github.com/cosmos/cosmos-sdk/codec/types"
	sdk "github.com/cosmos/cosmos-sdk/types"
	"github.com/gogo/protobuf/proto"
	"google.golang.org/grpc"

	"jkverif/chain"

	"github.com/jackalLabs/canine-chain/v4/app"
	filetreetypes "github.com/jackalLabs/canine-chain/v4/x/filetree/types"
	minttypes "github.com/jackalLabs/canine-chain/v4/x/jklmint/types"
	notiftypes "github.com/jackalLabs/canine-chain/v4/x/notifications/types"
	oracletypes "github.com/jackalLabs/canine-chain/v4/x/oracle/types"
	rnstypes "github.com/jackalLabs/canine-chain/v4/x/rns/types"
	storagetypes "github.com/jackalLabs/canine-chain/v4/x/storage/types"
)

// C11 – every message is authenticated as its creator and touches only its
// own resources.
//
// One registered property, three sub-monitors selected by the case index:
//
//	[0, nEnum)               (a) enumeration: one message type per case, all address fields
//	[nEnum, nEnum+nHist)     (b) non-interference histories
//	[nEnum+nHist, total)     (c) contract clause (wasm custom message plug-in)
//
// nEnum = (number of custom-module message types measured at run time) x
// (variants per type: 1 quick, 8 thorough).

const c11Prefix = "/canine_chain."

// c11Stores are the real store keys of the six custom modules (the
// notifications module's store key is "notification").
var c11Stores = []string{storagetypes.StoreKey, rnstypes.StoreKey, filetreetypes.StoreKey, oracletypes.StoreKey, notiftypes.StoreKey, minttypes.StoreKey}

func c11Variants(tier string) int { return tierN(tier, 1, 8) }
func c11NHist(tier string) int    { return tierN(tier, 120, 16000) }
func c11NContract(tier string) int {
	return tierN(tier, 36, 500)
}

func init() {
	Register(&Prop{
		ID:    "C11",
		Title: "Every message is authenticated as its creator and touches only its own resources",
		Cases: func(t string) int {
			return len(c11CaseTypes())*c11Variants(t) + c11NHist(t) + c11NContract(t)
		},
		Run: runC11,
		Rule: "three case families. (a) enumeration: one case per custom-module message type (union of: implementations of cosmos.base.v1beta1.Msg under /canine_chain. in the app's interface registry; request types of the six _Msg_serviceDesc service descriptors captured through Register MsgServer; second parameters of the six generated MsgServer interfaces) - the three lists must be identical; the instance is built by reflection with a distinct funded jkl address in Creator and in every string / []string field whose ValidateBasic accepts an address; checks GetSigners()==[Creator], MsgServiceRouter().Handler!=nil, the tx signed by Creator gets through the ante chain (signer sequence +1), and for every other address-bearing field plus one uninvolved account the same message signed only by that account's key is rejected with no sequence, KV or balance change. " +
			"(b) history: an owner builds a provider (+claimer), an oracle feed, an inbox (2 senders) and a block list, a registered primary name, a storage plan and file; a stranger then sends 14-30 messages of the kinds the statement names with itself as Creator and the owner's identifiers everywhere else; after every stranger message the KV diff of the six custom stores must only contain keys owned by the signer (per-prefix ownership rule) and the owner's / third parties' balances must be unchanged; at the end all owner records are byte-identical. " +
			"(c) contract: CustomMessenger.DispatchMsg / PerformPostFile are invoked the way the wasm VM does (cache context, committed only on success) with contract address !=/== PostFile.Creator. " +
			"non-trivial signature = (a) type URL x field x {creator-accepted, field-signer-rejected}; (b) message kind x outcome class (rejected / changed-own-records / no-op) x whether the stranger holds a resource of that kind itself; (c) entry point x scenario x outcome",
		Assumptions: []string{
			"a field 'can hold an address' iff it is a string or []string field and the message's ValidateBasic accepts a jkl bech32 address in it (measured per field, not assumed from names)",
			"'passes the ante handler' is observed as: the signer's account sequence increased by exactly one (the ante chain's writes are committed even when the message later fails)",
			"ownership of a store key is read from the key (providers, collateral, payment info, files, inbox/block entries, primary name: the address component) or from the stored record (Feed.Owner, Names.Value)",
			"the contract clause is decided at the Go plug-in boundary (CustomMessenger.DispatchMsg), the function the wasm VM calls; the VM's transactional behaviour (discard on error) is reproduced with a cache context; no wasm byte code is executed",
			"a stranger pointing its own primary-name entry at a name it does not own changes only the stranger's own entry and is therefore not a C11 violation (it is reported separately)",
		},
		MinNonTriv: 150,
		Exhaustive: func(string) bool { return true },
	})
}

// ---------------------------------------------------------------- enumeration sources

type c11SvcRecorder struct{ descs []*grpc.ServiceDesc }

func (r *c11SvcRecorder) RegisterService(sd *grpc.ServiceDesc, _ interface{}) {
	r.descs = append(r.descs, sd)
}

func c11Noop(_ context.Context, _ interface{}, _ *grpc.UnaryServerInfo, _ grpc.UnaryHandler) (interface{}, error) {
	return nil, nil
}

// c11FromServiceDescs returns typeURL -> "service/method" for the request types
// of the six generated service descriptors (captured by handing a recorder to
// the generated RegisterMsgServer functions).
func c11FromServiceDescs() (map[string]string, []string) {
	rec := &c11SvcRecorder{}
	storagetypes.RegisterMsgServer(rec, nil)
	rnstypes.RegisterMsgServer(rec, nil)
	filetreetypes.RegisterMsgServer(rec, nil)
	oracletypes.RegisterMsgServer(rec, nil)
	notiftypes.RegisterMsgServer(rec, nil)
	minttypes.RegisterMsgServer(rec, nil)
	out := map[string]string{}
	var svcs []string
	for _, sd := range rec.descs {
		svcs = append(svcs, fmt.Sprintf("%s(%d)", sd.ServiceName, len(sd.Methods)))
		for _, m := range sd.Methods {
			var req interface{}
			_, _ = m.Handler(nil, context.Background(), func(i interface{}) error { req = i; return nil }, c11Noop)
			pm, ok := req.(proto.Message)
			if !ok {
				out[fmt.Sprintf("?%s/%s", sd.ServiceName, m.MethodName)] = "not a proto message"
				continue
			}
			out["/"+proto.MessageName(pm)] = sd.ServiceName + "/" + m.MethodName
		}
	}
	return out, svcs
}

// c11FromServerInterfaces reflects on the generated MsgServer interfaces.
func c11FromServerInterfaces() map[string]string {
	ifaces := []reflect.Type{
		reflect.TypeOf((*storagetypes.MsgServer)(nil)).Elem(),
		reflect.TypeOf((*rnstypes.MsgServer)(nil)).Elem(),
		reflect.TypeOf((*filetreetypes.MsgServer)(nil)).Elem(),
		reflect.TypeOf((*oracletypes.MsgServer)(nil)).Elem(),
		reflect.TypeOf((*notiftypes.MsgServer)(nil)).Elem(),
		reflect.TypeOf((*minttypes.MsgServer)(nil)).Elem(),
	}
	out := map[string]string{}
	for _, it := range ifaces {
		for i := 0; i < it.NumMethod(); i++ {
			m := it.Method(i)
			if m.Type.NumIn() != 2 || m.Type.In(1).Kind() != reflect.Ptr {
				continue
			}
			v := reflect.New(m.Type.In(1).Elem()).Interface()
			if pm, ok := v.(proto.Message); ok {
				out["/"+proto.MessageName(pm)] = it.PkgPath() + "." + m.Name
			}
		}
	}
	return out
}

func c11FromRegistry(reg codectypes.InterfaceRegistry) []string {
	var out []string
	for _, u := range reg.ListImplementations(sdk.MsgInterfaceProtoName) {
		if strings.HasPrefix(u, c11Prefix) {
			out = append(out, u)
		}
	}
	sort.Strings(out)
	return out
}

var c11TypesCache []string

// c11CaseTypes is the case list of family (a): the sorted union of the three
// enumerations (so a type missing from one of them still gets its case and is
// reported there).
func c11CaseTypes() []string {
	if c11TypesCache != nil {
		return c11TypesCache
	}
	chain.SetBech32()
	set := map[string]bool{}
	for _, u := range c11FromRegistry(app.MakeEncodingConfig().InterfaceRegistry) {
		set[u] = true
	}
	sd, _ := c11FromServiceDescs()
	for u := range sd {
		set[u] = true
	}
	for u := range c11FromServerInterfaces() {
		set[u] = true
	}
	var out []string
	for u := range set {
		out = append(out, u)
	}
	sort.Strings(out)
	c11TypesCache = out
	return out
}

func runC11(rc *RunCtx) {
	types := c11CaseTypes()
	nEnum := len(types) * c11Variants(rc.Tier)
	switch {
	case rc.Case < nEnum:
		runC11Enum(rc, types, types[rc.Case%len(types)], rc.Case/len(types))
	case rc.Case < nEnum+c11NHist(rc.Tier):
		runC11History(rc)
	default:
		runC11Contract(rc)
	}
}

// ---------------------------------------------------------------- (a) enumeration

// plausible non-address values by field name
func c11PlainString(field string) string {
	switch field {
	case "Name":
		return "c11enum.jkl"
	case "Ip":
		return "https://provider.example.com"
	case "PaymentDenom":
		return "ujkl"
	case "Keybase":
		return "keybase-id"
	case "Key":
		return "age1publickey"
	case "Record":
		return "sub"
	case "TrackingNumber":
		return "tracking-0001"
	}
	return "{}"
}

func c11PlainInt(field string) int64 {
	switch field {
	case "DurationDays":
		return 30
	case "Bytes":
		return 1_000_000_000
	case "FileSize":
		return 1024
	case "MaxProofs":
		return 3
	case "TotalSpace", "Space":
		return 1_000_000_000_000
	case "Expires", "ProofType", "ProofInterval", "ToProve":
		return 0
	}
	return 1
}

type c11Field struct {
	Name  string
	Index int
	Slice bool
}

// c11Build creates a zero instance of the message type and fills every
// non-string field with a plausible value; string fields get their plausible
// non-address value. It returns the string / []string fields.
func c11Build(rc *RunCtx, m sdk.Msg) (reflect.Value, []c11Field) {
	v := reflect.ValueOf(m).Elem()
	t := v.Type()
	var sf []c11Field
	for i := 0; i < t.NumField(); i++ {
		f := t.Field(i)
		if strings.HasPrefix(f.Name, "XXX_") || f.PkgPath != "" {
			continue
		}
		fv := v.Field(i)
		switch {
		case f.Type.Kind() == reflect.String:
			fv.SetString(c11PlainString(f.Name))
			sf = append(sf, c11Field{Name: f.Name, Index: i})
		case f.Type.Kind() == reflect.Slice && f.Type.Elem().Kind() == reflect.String:
			fv.Set(reflect.ValueOf([]string{"c11enum.jkl"}))
			sf = append(sf, c11Field{Name: f.Name, Index: i, Slice: true})
		case f.Type.Kind() == reflect.Slice && f.Type.Elem().Kind() == reflect.Uint8:
			b := make([]byte, 32)
			rc.Rng.Read(b)
			fv.SetBytes(b)
		case f.Type.Kind() == reflect.Int64 || f.Type.Kind() == reflect.Int32:
			fv.SetInt(c11PlainInt(f.Name))
		case f.Type.Kind() == reflect.Uint64 || f.Type.Kind() == reflect.Uint32:
			fv.SetUint(uint64(c11PlainInt(f.Name)))
		case f.Type.Kind() == reflect.Bool:
			fv.SetBool(rc.Chance(0.5))
		case f.Type == reflect.TypeOf(sdk.Coin{}):
			fv.Set(reflect.ValueOf(sdk.NewInt64Coin("ujkl", 1000)))
		default:
			rc.Logf("field %s of kind %s left at its zero value", f.Name, f.Type)
		}
	}
	return v, sf
}

func c11Seq(c *chain.Chain, a sdk.AccAddress) uint64 {
	acc := c.App.AccountKeeper.GetAccount(c.Ctx(), a)
	if acc == nil {
		return 0
	}
	return acc.GetSequence()
}

type c11World struct {
	kv  map[string]map[string][]byte
	bal chain.Balances
	seq []uint64
}

func c11Observe(c *chain.Chain) c11World {
	w := c11World{kv: map[string]map[string][]byte{}, bal: c.Snapshot()}
	for _, s := range c11Stores {
		w.kv[s] = c.KV(s)
	}
	for _, a := range c.Accs {
		w.seq = append(w.seq, c11Seq(c, a.Addr))
	}
	return w
}

type c11Change struct {
	Store string
	chain.KVChange
}

func c11KVDiff(pre, post c11World) []c11Change {
	var out []c11Change
	for _, s := range c11Stores {
		for _, ch := range chain.KVDiff(pre.kv[s], post.kv[s]) {
			out = append(out, c11Change{Store: s, KVChange: ch})
		}
	}
	return out
}

func c11ShortURL(u string) string { return strings.TrimPrefix(u, c11Prefix) }

func runC11Enum(rc *RunCtx, all []string, url string, variant int) {
	short := c11ShortURL(url)
	const nAcc = 14
	c, err := chain.New(chain.Config{Seed: rc.Seed*131 + int64(variant), NAcc: nAcc})
	if err != nil {
		rc.Abort("init: " + err.Error())
		return
	}
	defer c.Close()

	// --- the three enumerations must agree (cheap; repeated in every enumeration case so each shard sees it)
	reg := c11FromRegistry(c.App.InterfaceRegistry)
	sd, svcs := c11FromServiceDescs()
	si := c11FromServerInterfaces()
	rc.Eval(1)
	regSet := map[string]bool{}
	for _, u := range reg {
		regSet[u] = true
	}
	for _, u := range all {
		_, inSD := sd[u]
		_, inSI := si[u]
		if !regSet[u] || !inSD || !inSI {
			rc.Fail("C11/enumerations-disagree", "%s: in interface registry=%v, in a Msg service descriptor=%v, in a MsgServer interface=%v", u, regSet[u], inSD, inSI)
		}
	}
	if len(reg) != len(sd) || len(sd) != len(si) {
		rc.Fail("C11/enumerations-disagree", "registry lists %d custom sdk.Msg implementations, service descriptors %d methods, MsgServer interfaces %d methods", len(reg), len(sd), len(si))
	}
	rc.Logf("enumeration: registry=%d serviceDesc=%d serverInterfaces=%d services=%v; this case: %s (variant %d)", len(reg), len(sd), len(si), svcs, url, variant)

	// --- instance
	pm, err := c.App.InterfaceRegistry.Resolve(url)
	if err != nil {
		rc.Fail("C11/unresolvable-type", "%s is a service request type but the interface registry cannot resolve it: %v", url, err)
		return
	}
	msg, ok := pm.(sdk.Msg)
	if !ok {
		rc.Fail("C11/not-a-msg", "%s resolves to %T which is not an sdk.Msg", url, pm)
		return
	}
	v, sfields := c11Build(rc, msg)

	// accounts: a PRNG permutation of 1..nAcc-1 (account 0 is the validator's delegator)
	perm := rc.Rng.Perm(nAcc - 1)
	next := 0
	take := func() int { i := perm[next] + 1; next++; return i }

	creatorIdx := -1
	hasCreator := false
	for _, f := range sfields {
		if f.Name == "Creator" && !f.Slice {
			hasCreator = true
			creatorIdx = take()
			v.Field(f.Index).SetString(c.Accs[creatorIdx].Bech)
		}
	}
	if !hasCreator {
		rc.Fail("C11/no-creator-field", "%s has no string field named Creator", url)
		return
	}
	// measure which other string fields can hold an address: the largest set of
	// string / []string fields that ValidateBasic accepts when all of them hold
	// jkl addresses at once (the remaining fields keep their plausible value)
	type bearer struct {
		field string
		acc   int
	}
	var others []c11Field
	for _, f := range sfields {
		if !(f.Name == "Creator" && !f.Slice) {
			others = append(others, f)
		}
	}
	if len(others) > 12 {
		rc.Abort(fmt.Sprintf("%s has %d string fields; subset search too large", short, len(others)))
		return
	}
	probe := c.Accs[0].Bech
	apply := func(mask int, addrOf func(i, j int) string) {
		for i, f := range others {
			fv := v.Field(f.Index)
			on := mask&(1<<uint(i)) != 0
			switch {
			case f.Slice && on:
				fv.Set(reflect.ValueOf([]string{addrOf(i, 0), addrOf(i, 1)}))
			case f.Slice:
				fv.Set(reflect.ValueOf([]string{"c11enum.jkl"}))
			case on:
				fv.SetString(addrOf(i, 0))
			default:
				fv.SetString(c11PlainString(f.Name))
			}
		}
	}
	best, bestBits := -1, -1
	var lastErr error
	for mask := 0; mask < 1<<uint(len(others)); mask++ {
		bits := 0
		for i := range others {
			if mask&(1<<uint(i)) != 0 {
				bits++
			}
		}
		if bits <= bestBits {
			continue
		}
		apply(mask, func(int, int) string { return probe })
		if err := msg.ValidateBasic(); err != nil {
			lastErr = err
			continue
		}
		best, bestBits = mask, bits
	}
	if best < 0 {
		rc.Abort(fmt.Sprintf("monitor cannot build a message of type %s that passes ValidateBasic: %v", short, lastErr))
		return
	}
	var bearers []bearer
	assigned := map[[2]int]int{}
	for i, f := range others {
		if best&(1<<uint(i)) == 0 {
			continue
		}
		if f.Slice {
			a, b := take(), take()
			assigned[[2]int{i, 0}], assigned[[2]int{i, 1}] = a, b
			bearers = append(bearers, bearer{f.Name + "[0]", a}, bearer{f.Name + "[1]", b})
		} else {
			a := take()
			assigned[[2]int{i, 0}] = a
			bearers = append(bearers, bearer{f.Name, a})
		}
	}
	apply(best, func(i, j int) string { return c.Accs[assigned[[2]int{i, j}]].Bech })
	if err := msg.ValidateBasic(); err != nil {
		rc.Abort(fmt.Sprintf("monitor cannot build a message of type %s that passes ValidateBasic: %v", short, err))
		return
	}
	outsider := take()
	rc.Logf("instance: %s", c11MsgString(msg))
	rc.Logf("creator=acc%d address-bearing fields=%v outsider=acc%d", creatorIdx, bearers, outsider)
	rc.Count("enum_types", 1)
	rc.Count("enum_address_fields", len(bearers))

	// --- static checks
	rc.Eval(2)
	var signers []sdk.AccAddress
	func() {
		defer func() {
			if r := recover(); r != nil {
				rc.Fail("C11/getsigners-panics", "%s: GetSigners panicked on a message that passes ValidateBasic: %v", short, r)
			}
		}()
		signers = msg.GetSigners()
	}()
	if len(signers) != 1 || !signers[0].Equals(c.Accs[creatorIdx].Addr) {
		var ss []string
		for _, s := range signers {
			who := s.String()
			for _, b := range bearers {
				if c.Accs[b.acc].Addr.Equals(s) {
					who += " (= field " + b.field + ")"
				}
			}
			ss = append(ss, who)
		}
		rc.Fail("C11/signers-not-creator/"+short, "GetSigners() = %v, Creator = %s", ss, c.Accs[creatorIdx].Bech)
	}
	if c.App.MsgServiceRouter().Handler(msg) == nil {
		rc.Fail("C11/no-handler/"+short, "MsgServiceRouter().Handler(%s) is nil: the message cannot be routed", url)
	}

	// --- end to end through the real ante chain
	if _, err := c.BeginBlock(dur(6)); err != nil {
		rc.Abort("BeginBlock: " + err.Error())
		return
	}
	wrong := append(append([]bearer{}, bearers...), bearer{"outsider (an account named nowhere in the message)", outsider})
	for _, b := range wrong {
		pre := c11Observe(c)
		r := c.DeliverAs(b.acc, msg)
		post := c11Observe(c)
		rc.Eval(1)
		rc.Logf("signed only by acc%d (%s): code=%d/%s log=%.100q", b.acc, b.field, r.Code, r.Codespace, r.Log)
		bad := false
		if r.OK() {
			rc.Fail("C11/foreign-signature-accepted/"+short, "message with Creator=%s signed only by the key of %s (field %s) was executed: code 0", c.Accs[creatorIdx].Bech, c.Accs[b.acc].Bech, b.field)
			bad = true
		}
		if post.seq[b.acc] != pre.seq[b.acc] {
			rc.Fail("C11/foreign-signature-passed-ante/"+short, "message with Creator=%s signed only by the key of %s (field %s) got through the ante chain (sequence %d -> %d), result code=%d %s", c.Accs[creatorIdx].Bech, c.Accs[b.acc].Bech, b.field, pre.seq[b.acc], post.seq[b.acc], r.Code, r.Log)
			bad = true
		}
		if d := c11KVDiff(pre, post); len(d) > 0 {
			rc.Fail("C11/foreign-signature-changed-state/"+short, "signed only by field %s: %d store keys changed, first %s/%q", b.field, len(d), d[0].Store, d[0].Key)
			bad = true
		}
		if d := chain.Diff(pre.bal, post.bal); len(d) > 0 {
			rc.Fail("C11/foreign-signature-moved-funds/"+short, "signed only by field %s: balances changed: %s", b.field, d)
			bad = true
		}
		for i := range pre.seq {
			if i != b.acc && pre.seq[i] != post.seq[i] {
				rc.Fail("C11/foreign-signature-bumped-sequence/"+short, "signed only by field %s: sequence of acc%d changed", b.field, i)
				bad = true
			}
		}
		if !bad {
			if r.Codespace == "sdk" && (r.Code == 4 || r.Code == 8) {
				rc.Count("enum_rejected_by_signature_check", 1)
			} else {
				rc.Count("enum_rejected_other_code", 1)
				rc.Logf("note: rejection code %d/%s is neither unauthorized(4) nor invalid pubkey(8)", r.Code, r.Codespace)
			}
			rc.NonTrivial("enum/" + short + "/" + strings.SplitN(b.field, " ", 2)[0] + "/rejected")
		}
	}
	// Creator's own signature
	pre := c11Observe(c)
	r := c.DeliverAs(creatorIdx, msg)
	post := c11Observe(c)
	rc.Eval(1)
	rc.Logf("signed by Creator acc%d: code=%d/%s log=%.120q", creatorIdx, r.Code, r.Codespace, r.Log)
	if post.seq[creatorIdx] != pre.seq[creatorIdx]+1 {
		rc.Fail("C11/creator-signature-rejected/"+short, "message signed by its Creator %s did not get through the ante chain (sequence %d -> %d): code=%d/%s %s", c.Accs[creatorIdx].Bech, pre.seq[creatorIdx], post.seq[creatorIdx], r.Code, r.Codespace, r.Log)
	} else {
		rc.NonTrivial("enum/" + short + "/Creator/accepted")
		if r.OK() {
			rc.Count("enum_creator_msg_ok", 1)
		} else {
			rc.Count("enum_creator_msg_failed_after_ante", 1)
		}
	}
	for i := range pre.seq {
		if i != creatorIdx && pre.seq[i] != post.seq[i] {
			rc.Fail("C11/creator-tx-bumped-other-sequence/"+short, "sequence of acc%d changed by a transaction signed by acc%d", i, creatorIdx)
		}
	}
	if err := c.EndAndCommit(); err != nil {
		rc.Abort("EndBlock/Commit: " + err.Error())
		return
	}
	var bf []string
	for _, b := range bearers {
		bf = append(bf, b.field)
	}
	rc.Sample(map[string]interface{}{"family": "enumeration", "type": url, "types_registry": len(reg), "types_service_desc": len(sd), "types_server_interfaces": len(si),
		"services": svcs, "address_fields": bf, "creator_tx_code": r.Code, "creator_tx_log": trunc(r.Log, 120)})
}

func trunc(s string, n int) string {
	if len(s) > n {
		return s[:n] + "..."
	}
	return s
}

func c11MsgString(m sdk.Msg) string {
	s := fmt.Sprintf("%T%+v", m, reflect.ValueOf(m).Elem().Interface())
	return trunc(s, 600)
}
