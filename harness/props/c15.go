package props

import (
	"fmt"
	"github.com/cosmos/cosmos-sdk/codec"
	"github.com/jackalLabs/canine-chain/v4/app"
	"sort"
	"strconv"
	"strings"

	sdk "github.com/cosmos/cosmos-sdk/types"
	banktypes "github.com/cosmos/cosmos-sdk/x/bank/types"

	"jkverif/chain"
	"jkverif/gen"

	storagetypes "github.com/jackalLabs/canine-chain/v4/x/storage/types"
)

// C15 – provider collateral is fully backed and returned exactly once.
//
// Reference model (DESIGN.md A.7): coll[x] = amount locked when x registered;
// escrow balance = sum of coll. Stepped alongside the chain; after every
// transaction the chain's observable state must agree with it.

func init() {
	Register(&Prop{
		ID:    "C15",
		Title: "Provider collateral is fully backed and returned exactly once",
		Cases: func(t string) int { return tierN(t, 150, 20000) },
		Run:   runC15,
		Rule: "case = one history of 14-45 steps over 4 accounts (one of them drained by a bank transfer to a boundary balance around the price): MsgInitProvider / MsgShutdownProvider (by providers, by non-providers, repeated), re-init after shutdown, bank transfers between the accounts, storage purchases with and without a referrer (tokens moving through the module's other accounts), unrelated provider-record edits, block boundaries, and (about 60% of the cases) 1-3 real governance changes of CollateralPrice placed between lock and refund; initial price from a boundary pool. " +
			"after EVERY delivered transaction (including the governance ones, checked when ParamChange returns): balance(storage_collateral_name) == sum of Collateral.Amount over GetAllCollateral == sum of the model's locks, record set == model, provider set (AllProviders query) == model; init: registrant -current CollateralPrice (Params query), escrow +same, no other balance moves, record == price; shutdown: registrant +recorded amount, escrow -same, no other balance moves, both records gone; shutdown by a non-provider: nothing moves. " +
			"non-trivial signature = (operation, outcome, relation of the current price to the price recorded at lock time: same/higher/lower, number of providers after the step clipped at 3)",
		Assumptions: []string{
			"the escrow account receives no third-party deposits (no generated transaction sends to it)",
			"a failing init by a non-provider that can afford the price is counted, not reported (the statement does not promise registration succeeds); a refused shutdown of a registered provider is reported, because the statement promises the refund",
			"whether a shutdown by a non-provider returns an error code is not checked, only that it moves nothing (the statement speaks about claims, not codes)",
		},
		MinNonTriv: 25,
	})
}

func runC15(rc *RunCtx) {
	pool := []int64{2, 3, 1000, 12345, 999_999, 5_000_000, 10_000_000_000}
	price := rc.Pick(pool)
	sp := storageParams(4, 4, 1024)
	sp.CollateralPrice = price
	gov := rc.Chance(0.6)
	const nAcc = 5
	cfg := chain.Config{Seed: rc.Seed, NAcc: nAcc, Storage: sp, Fund: sdk.NewCoins(sdk.NewInt64Coin("ujkl", 25_000_000_000))}
	if gov {
		cfg.GovVotingSeconds = 10
	}
	// a provider listed in the genesis file without a collateral entry (valid genesis; such a provider locked nothing,
	// so nothing is recorded for it and its shutdown returns nothing)
	genesisProvider := ""
	if rc.Chance(0.25) {
		chain.SetBech32()
		genesisProvider = sdk.AccAddress(chain.DeriveKey(rc.Seed, 4).PubKey().Address()).String()
		cfg.Mutate = func(cdc codec.JSONCodec, gs app.GenesisState) {
			var sg storagetypes.GenesisState
			cdc.MustUnmarshalJSON(gs[storagetypes.ModuleName], &sg)
			sg.ProvidersList = append(sg.ProvidersList, storagetypes.Providers{Address: genesisProvider, Ip: "https://genesis-provider.example.com", Totalspace: "1000000000000", BurnedContracts: "0", Creator: genesisProvider, KeybaseIdentity: "", AuthClaimers: []string{}})
			gs[storagetypes.ModuleName] = cdc.MustMarshalJSON(&sg)
		}
		rc.Count("genesis_providers_without_collateral", 1)
	}
	c, err := chain.New(cfg)
	if err != nil {
		rc.Abort("init: " + err.Error())
		return
	}
	defer c.Close()
	// some accounts spell their own address in upper case in every provider message of the case (valid bech32, same
	// signer); a provider is identified by the account, so a round trip under one spelling must behave like any other
	upper := map[string]bool{}
	for _, ac := range c.Accs {
		if rc.Chance(0.2) {
			upper[ac.Bech] = true
		}
	}
	// the genesis record is filed under the canonical spelling: its holder keeps to that spelling (the chain files
	// provider records under the spelling used, so one provider has to stick to one)
	if genesisProvider != "" {
		upper[genesisProvider] = false
	}
	spell := func(a string) string {
		if upper[a] {
			return strings.ToUpper(a)
		}
		return a
	}
	escrow := chain.ModuleAddr(storagetypes.CollateralCollectorName).String()
	if _, err := c.BeginBlock(dur(6)); err != nil {
		rc.Abort("BeginBlock: " + err.Error())
		return
	}
	rc.Logf("initial CollateralPrice=%d gov=%v escrow=%s", price, gov, escrow)

	// model
	coll := map[string]int64{}      // recorded lock per provider
	lockPrice := map[string]int64{} // == coll, kept separately for the signature only
	isProv := map[string]bool{}
	if genesisProvider != "" {
		if genesisProvider != c.Accs[4].Bech {
			rc.Abort("account derivation mismatch")
			return
		}
		isProv[genesisProvider] = true
	}
	players := []int{1, 2, 3, 4}
	who := func(a string) string {
		for i, ac := range c.Accs {
			if ac.Bech == a {
				return fmt.Sprintf("acc%d", i)
			}
		}
		if a == escrow {
			return "escrow"
		}
		return a
	}

	// the current collateral price is the value in the parameter store (what governance set); the Params query is
	// expected to show the same, a disagreement is counted, not judged
	curPrice := func() (int64, bool) {
		raw, ok := c.KV("params")["storage/CollateralPrice"]
		if !ok {
			rc.Abort("no storage/CollateralPrice in the parameter store")
			return 0, false
		}
		v, perr := strconv.ParseInt(strings.Trim(string(raw), `"`), 10, 64)
		if perr != nil {
			rc.Abort("parameter store holds " + string(raw) + " for storage/CollateralPrice")
			return 0, false
		}
		var pr storagetypes.QueryParamsResponse
		if err := c.GRPC("/canine_chain.storage.Query/Params", &storagetypes.QueryParams{}, &pr); err != nil {
			rc.Abort("Params query: " + err.Error())
			return 0, false
		}
		if pr.Params.CollateralPrice != v {
			rc.Count("params_query_differs_from_parameter_store", 1)
		}
		return v, true
	}

	// invariant + record agreement, evaluated after every transaction
	pgTick := 0
	check := func(after string) bool {
		rc.Eval(1)
		bal := c.Balance(escrow, "ujkl")
		recs := c.App.StorageKeeper.GetAllCollateral(c.Ctx())
		sum := sdk.ZeroInt()
		seen := map[string]bool{}
		for _, r := range recs {
			r.Address = c15Canon(r.Address)
			sum = sum.Add(sdk.NewInt(r.Amount))
			if seen[r.Address] {
				rc.Fail("C15/duplicate-collateral-record", "after %s: two collateral records for %s", after, who(r.Address))
			}
			seen[r.Address] = true
			m, ok := coll[r.Address]
			if !ok {
				rc.Fail("C15/stale-collateral-record", "after %s: collateral record {%s, %d} exists but %s holds no lock (never registered, or already refunded)", after, who(r.Address), r.Amount, who(r.Address))
			} else if m != r.Amount {
				rc.Fail("C15/record-amount", "after %s: collateral record of %s says %d, amount actually locked %d", after, who(r.Address), r.Amount, m)
			}
		}
		for a, m := range coll {
			if !seen[a] {
				rc.Fail("C15/missing-collateral-record", "after %s: %s locked %d but has no collateral record", after, who(a), m)
			}
		}
		if !bal.Equal(sum) {
			rc.Fail("C15/escrow-not-equal-records", "after %s: escrow balance %s != sum of collateral records %s (%d records)", after, bal, sum, len(recs))
		}
		msum := sdk.ZeroInt()
		for _, m := range coll {
			msum = msum.Add(sdk.NewInt(m))
		}
		if !bal.Equal(msum) {
			rc.Fail("C15/escrow-not-equal-locks", "after %s: escrow balance %s != sum of amounts locked and not yet refunded %s", after, bal, msum)
		}
		for _, cn := range c.App.BankKeeper.GetAllBalances(c.Ctx(), chain.ModuleAddr(storagetypes.CollateralCollectorName)) {
			if cn.Denom != "ujkl" && !cn.Amount.IsZero() {
				rc.Fail("C15/escrow-foreign-denom", "after %s: escrow holds %s", after, cn)
			}
		}
		// provider records
		var vr storagetypes.QueryAllProvidersResponse
		if err := c.GRPC("/canine_chain.storage.Query/AllProviders", &storagetypes.QueryAllProviders{Pagination: pg()}, &vr); err != nil {
			rc.Abort("AllProviders query: " + err.Error())
			return false
		}
		got := map[string]bool{}
		for _, p := range vr.Providers {
			p.Address = c15Canon(p.Address)
			got[p.Address] = true
			if !isProv[p.Address] {
				rc.Fail("C15/provider-record-left", "after %s: provider record of %s exists although it is not (or no longer) registered", after, who(p.Address))
			}
		}
		for a := range isProv {
			if !got[a] {
				rc.Fail("C15/provider-record-missing", "after %s: %s registered but has no provider record", after, who(a))
			}
		}
		// a client paging through the provider listing sees every provider exactly once (paging.go), every 4th check
		pgTick++
		if pgTick%4 == 0 {
			checkPaging(rc, c, []listQuery{{Path: "/canine_chain.storage.Query/AllProviders", Req: func() codec.ProtoMarshaler { return &storagetypes.QueryAllProviders{} }, Resp: &storagetypes.QueryAllProvidersResponse{}}}, pgTick/4)
		}
		return true
	}

	onlyMoves := func(sig, after string, d chain.Delta, want map[string]int64) {
		for a, w := range want {
			if !d.Of(a, "ujkl").Equal(sdk.NewInt(w)) {
				rc.Fail(sig, "%s: balance of %s moved by %s, expected %d", after, who(a), d.Of(a, "ujkl"), w)
			}
		}
		for _, a := range d.Accounts() {
			for dn, v := range d[a] {
				if _, ok := want[a]; ok && dn == "ujkl" {
					continue
				}
				rc.Fail(sig+"/other-account", "%s: balance of %s moved by %s%s; nothing else may change", after, who(a), v, dn)
			}
		}
	}

	// drain one account to a boundary balance
	poor := players[rc.Intn(len(players))]
	{
		residuals := []int64{0, 1, price - 1, price, price + 1, 2*price - 1, 500}
		res := residuals[rc.Intn(len(residuals))]
		have := c.Balance(c.Accs[poor].Bech, "ujkl").Int64()
		if res < have {
			r := c.DeliverAs(poor, banktypes.NewMsgSend(c.Accs[poor].Addr, c.Accs[0].Addr, sdk.NewCoins(sdk.NewInt64Coin("ujkl", have-res))))
			if !r.OK() {
				rc.Abort("drain: " + r.Log)
				return
			}
			rc.Logf("acc%d drained to %d ujkl", poor, res)
			if !check("drain transfer") {
				return
			}
		}
	}

	steps := 14 + rc.Intn(32)
	stipendMoved := false
	lapsed := false
	govLeft := 0
	if gov {
		govLeft = 1 + rc.Intn(3)
	}
	var sample []string
	nprov := func() int {
		n := len(isProv)
		if n > 3 {
			n = 3
		}
		return n
	}
	rel := func(a string, p int64) string {
		lp, ok := lockPrice[a]
		switch {
		case !ok:
			return "none"
		case p == lp:
			return "same"
		case p > lp:
			return "higher"
		}
		return "lower"
	}
	for s := 0; s < steps; s++ {
		p, ok := curPrice()
		if !ok {
			return
		}
		if p != price {
			rc.Abort(fmt.Sprintf("CollateralPrice query says %d, governance last set %d", p, price))
			return
		}
		op := rc.Intn(100)
		i := players[rc.Intn(len(players))]
		a := c.Accs[i].Bech
		if !lapsed && isProv[a] && rc.Chance(0.1) {
			// the provider takes on three files, proves each once and then never again: the reward blocks drop it from all
			// three and count three burned contracts against it. Its collateral stays locked and recorded all the same.
			lapsed = true
			sw := &SW{rc: rc, c: c}
			if r := sw.BuyPlan(0, 0, 5_000_000_000, 60, ""); !r.OK() {
				rc.Logf("plan for the lapse scenario refused: %s", trunc(r.Log, 120))
				continue
			}
			n := 0
			for k := 0; k < 3; k++ {
				f := gen.NewFile(randBytes(rc.Rng, int64(1+rc.Intn(2000))), 1024)
				if wf, r := sw.PostFile(0, f, 1, 0, -1); r.OK() {
					var pr ProofResult
					if upper[a] {
						pr = sw.ProveHonestUpper(i, wf)
					} else {
						pr = sw.ProveHonest(i, wf)
					}
					if pr.Success {
						n++
					}
				}
			}
			rc.Logf("step %d h=%d acc%d proves %d files once and goes silent", s, c.Height, i, n)
			if rc.Chance(0.5) {
				// no blocks pass: the provider keeps holding its proofs while the history goes on (and may shut down so)
				rc.Count("providers_holding_proofs", 1)
				continue
			}
			rc.Count("providers_that_let_three_contracts_burn", 1)
			for b := 0; b < 14; b++ {
				if _, err := c.NextBlock(dur(6)); err != nil {
					rc.Abort("block: " + err.Error())
					return
				}
				if !check(fmt.Sprintf("BeginBlock h=%d (lapse scenario)", c.Height)) {
					return
				}
			}
			continue
		}
		switch {
		case op < 34: // init
			pre := c.Snapshot()
			have := pre[a].AmountOf("ujkl")
			was := isProv[a]
			// the offered space is the registrant's own business (0 and negative values pass stateless validation too): the
			// collateral locked does not depend on it
			space := rc.Pick([]int64{1_000_000_000_000, 1_000_000_000_000, 1_000_000_000_000, 1, 0, -1, -1_000_000})
			r := c.DeliverAs(i, &storagetypes.MsgInitProvider{Creator: spell(a), Ip: fmt.Sprintf("https://p%d.example.com", i), Keybase: "kb", TotalSpace: space})
			d := chain.Diff(pre, c.Snapshot())
			after := fmt.Sprintf("step %d h=%d InitProvider by acc%d (price %d, balance %s, provider before=%v) -> code %d", s, c.Height, i, price, have, was, r.Code)
			rc.Logf("%s %.80q", after, r.Log)
			outcome := "ok"
			if r.OK() {
				if was {
					// a second lock on top of a live one: the model keeps what the statement fixes (each lock is recorded and backed)
					rc.Count("init_while_provider_accepted", 1)
				}
				onlyMoves("C15/init-amount", after, d, map[string]int64{a: -price, escrow: price})
				coll[a] = price
				lockPrice[a] = price
				isProv[a] = true
			} else {
				onlyMoves("C15/failed-init-moved-funds", after, d, map[string]int64{})
				switch {
				case was:
					outcome = "rejected-already-provider"
				case have.LT(sdk.NewInt(price)):
					outcome = "rejected-insufficient-funds"
				default:
					outcome = "rejected-unexpectedly"
					rc.Count("init_unexpected_failure", 1)
				}
			}
			rc.NonTrivial(fmt.Sprintf("init/%s/providers=%d", outcome, nprov()))
			if len(sample) < 10 {
				sample = append(sample, after)
			}
			if !check(after) {
				return
			}
		case op < 68: // shutdown
			pre := c.Snapshot()
			was := isProv[a]
			recorded := coll[a]
			relation := rel(a, price)
			r := c.DeliverAs(i, &storagetypes.MsgShutdownProvider{Creator: spell(a)})
			d := chain.Diff(pre, c.Snapshot())
			after := fmt.Sprintf("step %d h=%d ShutdownProvider by acc%d (provider=%v, recorded %d, current price %d) -> code %d", s, c.Height, i, was, recorded, price, r.Code)
			rc.Logf("%s %.80q", after, r.Log)
			outcome := ""
			switch {
			case was && r.OK():
				outcome = "refunded"
				onlyMoves("C15/refund-amount", after, d, map[string]int64{a: recorded, escrow: -recorded})
				delete(coll, a)
				delete(lockPrice, a)
				delete(isProv, a)
			case was && !r.OK():
				outcome = "refused"
				rc.Fail("C15/shutdown-refused", "%s: a registered provider cannot shut down and recover its %d ujkl: %s", after, recorded, trunc(r.Log, 160))
				onlyMoves("C15/failed-shutdown-moved-funds", after, d, map[string]int64{})
			default: // not a provider: never registered, or already refunded
				outcome = "non-provider-nothing-moved"
				if r.OK() {
					rc.Count("shutdown_by_non_provider_code0", 1)
				}
				onlyMoves("C15/shutdown-by-non-provider-moved-funds", after, d, map[string]int64{})
			}
			rc.NonTrivial(fmt.Sprintf("shutdown/%s/price-vs-lock=%s/providers=%d", outcome, relation, nprov()))
			if len(sample) < 10 {
				sample = append(sample, after)
			}
			if !check(after) {
				return
			}
		case op < 76: // immediate second shutdown attempt by somebody who just might have been refunded, in the same block
			for k := 0; k < 2; k++ {
				pre := c.Snapshot()
				was := isProv[a]
				recorded := coll[a]
				r := c.DeliverAs(i, &storagetypes.MsgShutdownProvider{Creator: spell(a)})
				d := chain.Diff(pre, c.Snapshot())
				after := fmt.Sprintf("step %d.%d h=%d ShutdownProvider by acc%d (provider=%v recorded %d) -> code %d", s, k, c.Height, i, was, recorded, r.Code)
				rc.Logf("%s %.80q", after, r.Log)
				if was && r.OK() {
					onlyMoves("C15/refund-amount", after, d, map[string]int64{a: recorded, escrow: -recorded})
					rc.NonTrivial(fmt.Sprintf("shutdown/refunded/price-vs-lock=%s/providers=%d", rel(a, price), nprov()))
					delete(coll, a)
					delete(lockPrice, a)
					delete(isProv, a)
				} else if was {
					rc.Fail("C15/shutdown-refused", "%s: a registered provider cannot shut down and recover its %d ujkl: %s", after, recorded, trunc(r.Log, 160))
				} else {
					onlyMoves("C15/shutdown-by-non-provider-moved-funds", after, d, map[string]int64{})
					if k == 1 {
						rc.NonTrivial("shutdown/second-attempt-nothing-moved")
					}
				}
				if !check(after) {
					return
				}
			}
		case op < 82: // bank transfer between players (can lift the poor account over the price, or sink another one)
			j := players[rc.Intn(len(players))]
			if j == i {
				continue
			}
			have := c.Balance(a, "ujkl").Int64()
			amts := []int64{1, price, price - 1, have, have - price, have - price + 1, have / 2}
			amt := amts[rc.Intn(len(amts))]
			if amt <= 0 || amt > have {
				continue
			}
			r := c.DeliverAs(i, banktypes.NewMsgSend(c.Accs[i].Addr, c.Accs[j].Addr, sdk.NewCoins(sdk.NewInt64Coin("ujkl", amt))))
			after := fmt.Sprintf("step %d h=%d bank send acc%d -> acc%d %d -> code %d", s, c.Height, i, j, amt, r.Code)
			rc.Logf("%s", after)
			if !check(after) {
				return
			}
		case op < 84: // other storage traffic that moves tokens through the module's other accounts: a purchase with or without a referrer
			j := players[rc.Intn(len(players))]
			ref := []string{"", c.Accs[j].Bech, c.Accs[0].Bech, strings.ToUpper(c.Accs[j].Bech)}[rc.Intn(4)]
			r := c.DeliverAs(i, &storagetypes.MsgBuyStorage{Creator: a, ForAddress: a, DurationDays: int64(30 + rc.Intn(400)), Bytes: int64(1+rc.Intn(20)) * 1_000_000_000, PaymentDenom: "ujkl", Referral: ref})
			after := fmt.Sprintf("step %d h=%d BuyStorage by acc%d referral=%q -> code %d", s, c.Height, i, ref, r.Code)
			rc.Logf("%s %.80q", after, r.Log)
			rc.Count("storage_purchases", 1)
			if r.OK() {
				rc.Count("storage_purchases_ok", 1)
			}
			if !check(after) {
				return
			}
		case op < 90: // provider-record edits that are none of the collateral's business: offered space (0 and negative values pass
			// stateless validation), claimers, address, keybase. None of them moves a token, removes the provider or redirects the refund.
			j := players[rc.Intn(len(players))]
			var m sdk.Msg
			kind := rc.Intn(6)
			switch kind {
			case 0:
				m = &storagetypes.MsgSetProviderTotalSpace{Creator: spell(a), Space: int64(rc.Intn(1_000_000))}
			case 1:
				m = &storagetypes.MsgSetProviderTotalSpace{Creator: spell(a), Space: rc.Pick([]int64{0, 0, -1, 1, -1_000_000})}
			case 2:
				m = &storagetypes.MsgAddClaimer{Creator: spell(a), ClaimAddress: c.Accs[j].Bech}
			case 3:
				m = &storagetypes.MsgRemoveClaimer{Creator: spell(a), ClaimAddress: c.Accs[j].Bech}
			case 4:
				m = &storagetypes.MsgSetProviderIP{Creator: spell(a), Ip: fmt.Sprintf("https://q%d.example.org:%d", i, 3000+rc.Intn(100))}
			default:
				m = &storagetypes.MsgSetProviderKeybase{Creator: spell(a), Keybase: "kb2"}
			}
			pre := c.Snapshot()
			r := c.DeliverAs(i, m)
			d := chain.Diff(pre, c.Snapshot())
			after := fmt.Sprintf("step %d h=%d %T by acc%d (provider=%v, other=acc%d) -> code %d", s, c.Height, m, i, isProv[a], j, r.Code)
			rc.Logf("%s %.80q", after, r.Log)
			onlyMoves("C15/record-edit-moved-funds", after, d, map[string]int64{})
			if r.OK() && isProv[a] {
				rc.NonTrivial(fmt.Sprintf("record-edit/kind=%d", kind))
			}
			if !check(after) {
				return
			}
		case op < 94 || govLeft == 0: // block boundary
			if _, err := c.NextBlock(dur(int64(6 + rc.Intn(3600)))); err != nil {
				rc.Abort("block: " + err.Error())
				return
			}
			if !check(fmt.Sprintf("BeginBlock h=%d", c.Height)) {
				return
			}
		default: // governance change of the price
			if !stipendMoved && rc.Chance(0.25) {
				// governance points the mint module's storage stipend at the collateral escrow account (its validator accepts
				// any string): a module account is not a valid receiver, so nothing may arrive there
				stipendMoved = true
				govLeft--
				rc.Logf("step %d h=%d governance: jklmint StorageStipend -> collateral escrow", s, c.Height)
				if err := c.ParamChange("jklmint", "StorageStipend", fmt.Sprintf(`"%s"`, escrow)); err != nil {
					if pe, ok := err.(*chain.PanicError); ok {
						rc.Abort("block panic during governance: " + pe.Value)
						return
					}
					rc.Logf("  not applied: %v", err)
				} else {
					rc.Count("stipend_pointed_at_escrow", 1)
				}
				if !check(fmt.Sprintf("governance StorageStipend -> escrow, h=%d", c.Height)) {
					return
				}
				continue
			}
			np := rc.Pick(pool)
			if rc.Chance(0.3) {
				np = price + rc.Pick([]int64{-1, 1, 1000, -1000})
			}
			if np <= 1 || np == price {
				continue
			}
			govLeft--
			rc.Logf("step %d h=%d governance: CollateralPrice %d -> %d (%d locks outstanding)", s, c.Height, price, np, len(coll))
			if err := c.ParamChange("storage", "CollateralPrice", fmt.Sprintf(`"%d"`, np)); err != nil {
				if pe, ok := err.(*chain.PanicError); ok {
					rc.Abort("block panic during governance: " + pe.Value)
				} else {
					rc.Abort("gov: " + err.Error())
				}
				return
			}
			q, ok := curPrice()
			if !ok {
				return
			}
			if q != np {
				rc.Abort(fmt.Sprintf("governance change passed but CollateralPrice is %d, not %d", q, np))
				return
			}
			dir := "up"
			if np < price {
				dir = "down"
			}
			price = np
			rc.Count("gov_changes", 1)
			if len(coll) > 0 {
				rc.NonTrivial("gov/price-" + dir + "/with-outstanding-locks")
			}
			if !check(fmt.Sprintf("governance change to %d", np)) {
				return
			}
		}
	}
	// wind down: everybody still registered shuts down; escrow must end at exactly zero
	var left []string
	for a := range isProv {
		left = append(left, a)
	}
	sort.Strings(left)
	for _, a := range left {
		idx := -1
		for i, ac := range c.Accs {
			if ac.Bech == a {
				idx = i
			}
		}
		pre := c.Snapshot()
		recorded := coll[a]
		relation := rel(a, price)
		r := c.DeliverAs(idx, &storagetypes.MsgShutdownProvider{Creator: spell(a)})
		d := chain.Diff(pre, c.Snapshot())
		after := fmt.Sprintf("wind-down h=%d ShutdownProvider by acc%d (recorded %d, current price %d) -> code %d", c.Height, idx, recorded, price, r.Code)
		rc.Logf("%s %.80q", after, r.Log)
		if !r.OK() {
			rc.Fail("C15/shutdown-refused", "%s: a registered provider cannot shut down and recover its %d ujkl: %s", after, recorded, trunc(r.Log, 160))
			continue
		}
		onlyMoves("C15/refund-amount", after, d, map[string]int64{a: recorded, escrow: -recorded})
		rc.NonTrivial(fmt.Sprintf("shutdown/refunded/price-vs-lock=%s/providers=%d", relation, nprov()))
		delete(coll, a)
		delete(lockPrice, a)
		delete(isProv, a)
		if !check(after) {
			return
		}
	}
	if len(coll) == 0 {
		rc.Eval(1)
		if b := c.Balance(escrow, "ujkl"); !b.IsZero() {
			rc.Fail("C15/escrow-residue", "all providers shut down, escrow still holds %s ujkl", b)
		}
	}
	if err := c.EndAndCommit(); err != nil {
		rc.Abort("EndBlock/Commit: " + err.Error())
		return
	}
	rc.Sample(map[string]interface{}{"initial_price": sp.CollateralPrice, "final_price": price, "gov": gov, "steps": steps, "first_ops": sample})
}

func c15Canon(a string) string {
	if ad, err := sdk.AccAddressFromBech32(a); err == nil {
		return ad.String()
	}
	return a
}
