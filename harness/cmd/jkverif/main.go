package main

import (
	"encoding/json"
	"flag"
	"fmt"
	"os"
	"runtime/debug"
	"sort"
	"time"

	"jkverif/chain"
	"jkverif/props"
)

type shardOut struct {
	Prop        string                 `json:"prop"`
	Tier        string                 `json:"tier"`
	Seed        int64                  `json:"seed"`
	Shard       int                    `json:"shard"`
	NShards     int                    `json:"nshards"`
	CasesTotal  int                    `json:"cases_total"`
	CasesRun    int                    `json:"cases_run"`
	Evaluations int                    `json:"evaluations"`
	NonTrivial  []string               `json:"nontrivial"`
	Samples     []interface{}          `json:"samples"`
	Counters    map[string]int         `json:"counters"`
	Findings    []props.Finding        `json:"findings"`
	Aborted     map[string]int         `json:"aborted"`
	AbortedCase map[string]int         `json:"aborted_case"`
	Rule        string                 `json:"rule"`
	Assumptions []string               `json:"assumptions"`
	MinNonTriv  int                    `json:"min_nontrivial"`
	Exhaustive  bool                   `json:"exhaustive"`
	WallS       float64                `json:"wall_s"`
	Extra       map[string]interface{} `json:"extra,omitempty"`
}

var stdout = os.Stdout

func main() {
	// the application prints debug lines with fmt.Printf (BuyStorage); keep them off our output
	if dn, err := os.OpenFile(os.DevNull, os.O_WRONLY, 0); err == nil {
		os.Stdout = dn
	}
	debug.SetGCPercent(200)
	if len(os.Args) < 2 {
		fmt.Fprintln(stdout, "usage: jkverif run|replay|list ...")
		os.Exit(2)
	}
	chain.SetBech32()
	switch os.Args[1] {
	case "list":
		for _, id := range props.IDs() {
			fmt.Fprintln(stdout, id)
		}
	case "run":
		fs := flag.NewFlagSet("run", flag.ExitOnError)
		prop := fs.String("prop", "", "property id")
		tier := fs.String("tier", "quick", "quick|thorough")
		seed := fs.Int64("seed", 1, "seed")
		shard := fs.Int("shard", 0, "shard index")
		nshards := fs.Int("nshards", 1, "number of shards")
		out := fs.String("out", "", "output json")
		limit := fs.Int("limit", 0, "override number of cases (0 = tier default)")
		fs.Parse(os.Args[2:])
		p := props.Registry[*prop]
		if p == nil {
			fmt.Fprintln(stdout, "unknown property", *prop)
			os.Exit(2)
		}
		t0 := time.Now()
		n := p.Cases(*tier)
		if *limit > 0 {
			n = *limit
		}
		so := shardOut{Prop: p.ID, Tier: *tier, Seed: *seed, Shard: *shard, NShards: *nshards, CasesTotal: n,
			Counters: map[string]int{}, Aborted: map[string]int{}, AbortedCase: map[string]int{}, Rule: p.Rule, Assumptions: p.Assumptions, MinNonTriv: p.MinNonTriv}
		if p.Exhaustive != nil {
			so.Exhaustive = p.Exhaustive(*tier)
		}
		nt := map[string]bool{}
		seenSig := map[string]bool{}
		for i := *shard; i < n; i += *nshards {
			// progress marker before the case runs, so a crash identifies the case
			fmt.Fprintf(os.Stderr, "case %d\n", i)
			r := props.RunCase(p, *seed, i, *tier, false)
			so.CasesRun++
			so.Evaluations += r.Evaluations
			for _, s := range r.NonTrivial {
				nt[s] = true
			}
			for k, v := range r.Counters {
				so.Counters[k] += v
			}
			if r.Sample != nil && len(so.Samples) < 2 {
				so.Samples = append(so.Samples, r.Sample)
			}
			if r.Aborted != "" {
				so.Aborted[r.Aborted]++
				if _, ok := so.AbortedCase[r.Aborted]; !ok {
					so.AbortedCase[r.Aborted] = i
				}
			}
			for _, f := range r.Findings {
				if !seenSig[f.Sig] {
					seenSig[f.Sig] = true
					so.Findings = append(so.Findings, f)
				}
			}
		}
		for s := range nt {
			so.NonTrivial = append(so.NonTrivial, s)
		}
		sort.Strings(so.NonTrivial)
		so.WallS = time.Since(t0).Seconds()
		bz, _ := json.Marshal(so)
		if *out == "" {
			fmt.Fprintln(stdout, string(bz))
		} else if err := os.WriteFile(*out, bz, 0o644); err != nil {
			fmt.Fprintln(stdout, err)
			os.Exit(2)
		}
	case "replay":
		fs := flag.NewFlagSet("replay", flag.ExitOnError)
		prop := fs.String("prop", "", "property id")
		tier := fs.String("tier", "quick", "")
		seed := fs.Int64("seed", 1, "")
		idx := fs.Int("case", 0, "")
		fs.Parse(os.Args[2:])
		p := props.Registry[*prop]
		if p == nil {
			fmt.Fprintln(stdout, "unknown property", *prop)
			os.Exit(2)
		}
		func() {
			defer func() {
				if r := recover(); r != nil {
					fmt.Fprintf(stdout, "harness panic: %v\n%s\n", r, debug.Stack())
					os.Exit(3)
				}
			}()
			r := props.RunCase(p, *seed, *idx, *tier, true)
			bz, _ := json.MarshalIndent(map[string]interface{}{"findings": len(r.Findings), "nontrivial": r.NonTrivial, "aborted": r.Aborted, "sample": r.Sample, "evaluations": r.Evaluations, "counters": r.Counters}, "", " ")
			fmt.Fprintln(stdout, string(bz))
			for _, f := range r.Findings {
				fmt.Fprintf(stdout, "FINDING property=%s sig=%s %s\n", f.Prop, f.Sig, f.Detail)
			}
			if len(r.Findings) > 0 {
				os.Exit(1)
			}
			if r.Aborted != "" {
				os.Exit(3)
			}
		}()
	case "c06record":
		c06Record(os.Args[2:])
	case "c06replay":
		c06Replay(os.Args[2:])
	default:
		fmt.Fprintln(stdout, "unknown command")
		os.Exit(2)
	}
}
