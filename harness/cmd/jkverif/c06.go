package main

import (
	"encoding/json"
	"flag"
	"fmt"
	"math/rand"
	"os"
	"path/filepath"
	"sort"
	"strings"

	sdk "github.com/cosmos/cosmos-sdk/types"

	"jkverif/chain"
	"jkverif/props"

	"github.com/jackalLabs/canine-chain/v4/app"
)

// C06 corpus: which generators feed the determinism check.
var c06Sources = []string{"X06", "C05", "X06", "C03", "C17", "X06", "C07", "C10", "C18", "C14", "C12", "C01", "C04", "C08", "X06", "C16", "C15", "C19", "C02", "C13", "C09"}

type c06Meta struct {
	Case      int      `json:"case"`
	Source    string   `json:"source"`
	SrcCase   int      `json:"src_case"`
	Chains    int      `json:"chains"`
	Txs       int      `json:"txs"`
	Blocks    int      `json:"blocks"`
	MsgTypes  []string `json:"msg_types"`
	MaxPaid   int      `json:"max_paid"`
	Signature string   `json:"signature"`
}

func c06Record(args []string) {
	fs := flag.NewFlagSet("c06record", flag.ExitOnError)
	seed := fs.Int64("seed", 1, "")
	n := fs.Int("n", 40, "number of histories")
	shard := fs.Int("shard", 0, "")
	nshards := fs.Int("nshards", 1, "")
	dir := fs.String("dir", "", "")
	fs.Parse(args)
	txc := app.MakeEncodingConfig().TxConfig
	for k := *shard; k < *n; k += *nshards {
		src := c06Sources[k%len(c06Sources)]
		p := props.Registry[src]
		r := rand.New(rand.NewSource(*seed*7919 + int64(k)))
		srcCase := r.Intn(100000)
		chain.Rec = &chain.Recorder{}
		fmt.Fprintf(os.Stderr, "record case %d source %s/%d\n", k, src, srcCase)
		props.RunCase(p, *seed, srcCase, "quick", false)
		chains := chain.Rec.Chains
		chain.Rec = nil
		meta := c06Meta{Case: k, Source: src, SrcCase: srcCase, Chains: len(chains)}
		types := map[string]bool{}
		for _, ch := range chains {
			for _, op := range ch {
				switch op.Op {
				case "tx":
					meta.Txs++
					if tx, err := txc.TxDecoder()(op.Bytes); err == nil {
						for _, m := range tx.GetMsgs() {
							u := sdk.MsgTypeURL(m)
							types[u[strings.LastIndex(u, ".")+1:]] = true
						}
					}
				case "begin":
					meta.Blocks++
					if op.Paid > meta.MaxPaid {
						meta.MaxPaid = op.Paid
					}
				}
			}
		}
		for t := range types {
			meta.MsgTypes = append(meta.MsgTypes, t)
		}
		sort.Strings(meta.MsgTypes)
		paidClass := "paid<3"
		if meta.MaxPaid >= 3 {
			paidClass = "paid>=3"
		}
		meta.Signature = fmt.Sprintf("%s/%s/types=%d/%s", src, paidClass, len(meta.MsgTypes), strings.Join(meta.MsgTypes, ","))
		if err := chain.WriteTrace(filepath.Join(*dir, fmt.Sprintf("trace-%d.json", k)), chains); err != nil {
			fmt.Fprintln(os.Stderr, err)
			os.Exit(2)
		}
		bz, _ := json.Marshal(meta)
		os.WriteFile(filepath.Join(*dir, fmt.Sprintf("meta-%d.json", k)), bz, 0o644)
	}
}

func c06Replay(args []string) {
	fs := flag.NewFlagSet("c06replay", flag.ExitOnError)
	seed := fs.Int64("seed", 1, "")
	n := fs.Int("n", 40, "")
	shard := fs.Int("shard", 0, "")
	nshards := fs.Int("nshards", 1, "")
	dir := fs.String("dir", "", "")
	suffix := fs.String("suffix", "B", "")
	interleave := fs.Float64("interleave", 0, "probability of extra serialised CheckTx/Query/Simulate calls between consensus calls")
	restart := fs.Float64("restart", 0, "probability per Commit of restarting the application on the same database")
	crash := fs.Float64("crash", 0, "probability per in-block call of the node dying and re-executing the block on a new instance")
	file := fs.String("file", "", "replay a single trace file and print digests")
	dump := fs.Bool("dump", false, "with -file: print the decoded messages of the trace instead of replaying it")
	fs.Parse(args)
	if *file != "" {
		chains, err := chain.ReadTrace(*file)
		if err != nil {
			fmt.Fprintln(stdout, err)
			os.Exit(2)
		}
		if *dump {
			enc := app.MakeEncodingConfig()
			for ci, ch := range chains {
				for i, op := range ch {
					if op.Op != "tx" && op.Op != "sim" {
						fmt.Fprintf(stdout, "chain %d step %d %s h=%d %s\n", ci, i, op.Op, op.Height, op.Info)
						continue
					}
					tx, err := enc.TxConfig.TxDecoder()(op.Bytes)
					if err != nil {
						fmt.Fprintf(stdout, "chain %d step %d %s undecodable: %v\n", ci, i, op.Op, err)
						continue
					}
					for _, m := range tx.GetMsgs() {
						bz, _ := enc.Marshaler.MarshalJSON(m)
						js := string(bz)
						if len(js) > 400 {
							js = js[:400] + "..."
						}
						fmt.Fprintf(stdout, "chain %d step %d %s h=%d %s: %s %s\n", ci, i, op.Op, op.Height, op.Info, sdk.MsgTypeURL(m), js)
					}
				}
			}
			return
		}
		bad := 0
		for ci, ch := range chains {
			out, err := chain.Replay(ch, chain.ReplayOpts{Interleave: *interleave, Restart: *restart, Crash: *crash, Rng: rand.New(rand.NewSource(*seed))})
			if err != nil {
				fmt.Fprintf(stdout, "chain %d: replay error %v\n", ci, err)
				bad++
				continue
			}
			for i := range out {
				if i >= len(ch) {
					break
				}
				if ch[i].Op != "init" && out[i].Digest != ch[i].Digest && ch[i].Digest2 != "" && out[i].Digest2 == ch[i].Digest2 && out[i].Class == "stateless-reject/first-block-after-restart" {
					fmt.Fprintf(stdout, "chain %d step %d (%s h=%d): only GasUsed differs on a transaction rejected by ValidateBasic in the first block after a restart (listed finding): recorded %s replayed %s\n", ci, i, ch[i].Op, ch[i].Height, ch[i].Info, out[i].Info)
					continue
				}
				if ch[i].Op != "init" && out[i].Digest != ch[i].Digest {
					fmt.Fprintf(stdout, "chain %d step %d (%s h=%d): recorded %s (%s) replayed %s (%s)\n", ci, i, ch[i].Op, ch[i].Height, ch[i].Digest, ch[i].Info, out[i].Digest, out[i].Info)
					bad++
					break
				}
			}
		}
		fmt.Fprintf(stdout, "replayed %d chains, %d diverged\n", len(chains), bad)
		if bad > 0 {
			os.Exit(1)
		}
		return
	}
	for k := *shard; k < *n; k += *nshards {
		chains, err := chain.ReadTrace(filepath.Join(*dir, fmt.Sprintf("trace-%d.json", k)))
		if err != nil {
			continue
		}
		fmt.Fprintf(os.Stderr, "replay case %d\n", k)
		var outs [][]chain.TraceOp
		for _, ch := range chains {
			out, err := chain.Replay(ch, chain.ReplayOpts{Interleave: *interleave, Restart: *restart, Crash: *crash, Rng: rand.New(rand.NewSource(*seed*31 + int64(k)))})
			if err != nil {
				out = append(out, chain.TraceOp{Op: "error", Info: err.Error()})
			}
			outs = append(outs, out)
		}
		bz, _ := json.Marshal(outs)
		os.WriteFile(filepath.Join(*dir, fmt.Sprintf("digest-%d-%s.json", k, *suffix)), bz, 0o644)
	}
}
