package chain

// Helpers for the export / import round trip (property C19). New file; nothing
// in chain.go is changed.

import (
	"fmt"
	"os"
	"runtime/debug"

	"github.com/CosmWasm/wasmd/x/wasm"
	servertypes "github.com/cosmos/cosmos-sdk/server/types"
	abci "github.com/tendermint/tendermint/abci/types"
	cryptoenc "github.com/tendermint/tendermint/crypto/encoding"
	"github.com/tendermint/tendermint/libs/log"
	dbm "github.com/tendermint/tm-db"

	"github.com/jackalLabs/canine-chain/v4/app"
)

// Export runs the application's real genesis export on the last committed
// state. A panic inside the export is returned as *PanicError (the chain stays usable:
// export only reads).
func (c *Chain) Export() (exp servertypes.ExportedApp, err error) {
	if c.InBlock {
		return exp, fmt.Errorf("export inside an open block")
	}
	defer func() {
		if r := recover(); r != nil {
			err = &PanicError{Where: "ExportAppStateAndValidators", Value: fmt.Sprint(r), Stack: string(debug.Stack())}
		}
	}()
	return c.App.ExportAppStateAndValidators(false, nil)
}

// NewFromExport builds a fresh application over an empty MemDB and runs
// InitChain on an exported genesis the way Tendermint does when a node is
// started from the genesis file written by `export`:
//
//   - AppStateBytes   = exported app state, verbatim;
//   - InitialHeight   = exported height (last committed height + 1), so heights
//     stored in module records keep their meaning;
//   - Validators      = the exported validator set (Tendermint copies the genesis
//     file's validators into RequestInitChain; baseapp then insists that the
//     staking module's InitGenesis returns exactly this set);
//   - ConsensusParams = the exported consensus parameters;
//   - Time            = the source chain's last block time (genesis_time of the new file).
//
// The returned chain shares the source's signing keys. Its Height is
// InitialHeight-1 so that the next BeginBlock opens block InitialHeight, and
// its observation header equals the source's last header, so queries that
// consult block height/time see the same values on both sides.
//
// After InitChain and before the first Commit the imported genesis lives only
// in the deliver state; use PreBlock to observe it.
func NewFromExport(src *Chain, exp servertypes.ExportedApp) (*Chain, error) {
	SetBech32()
	home, err := os.MkdirTemp("", "jkverif-home-")
	if err != nil {
		return nil, err
	}
	enc := app.MakeEncodingConfig()
	a := app.NewJackalApp(log.NewNopLogger(), dbm.NewMemDB(), nil, true, map[int64]bool{}, home, 0,
		enc, wasm.EnableAllProposals, app.EmptyBaseAppOptions{}, nil)
	c := &Chain{App: a, Enc: enc.Marshaler, Cfg: src.Cfg, home: home, Time: src.Time,
		Accs: append([]Acc{}, src.Accs...), ValPriv: src.ValPriv}
	c.Cfg.AppState = exp.AppState
	c.Height = exp.Height - 1
	c.header = src.header

	var vals []abci.ValidatorUpdate
	for _, v := range exp.Validators {
		pk, err := cryptoenc.PubKeyToProto(v.PubKey)
		if err != nil {
			return nil, err
		}
		vals = append(vals, abci.ValidatorUpdate{PubKey: pk, Power: v.Power})
	}
	var perr error
	func() {
		defer func() {
			if r := recover(); r != nil {
				perr = &PanicError{Where: "InitChain", Value: fmt.Sprint(r), Stack: string(debug.Stack())}
			}
		}()
		a.InitChain(abci.RequestInitChain{
			ChainId:         ChainID,
			Time:            src.Time,
			Validators:      vals,
			ConsensusParams: exp.ConsensusParams,
			AppStateBytes:   exp.AppState,
			InitialHeight:   exp.Height,
		})
	}()
	if perr != nil {
		c.Dead = true
		return c, perr
	}
	return c, nil
}

// PreBlock runs f with the chain's observation context (Ctx, KV, GRPC, Snapshot)
// bound to the deliver state that InitChain left behind, i.e. the imported
// genesis before any block has been executed on it. Only valid between
// NewFromExport and the first BeginBlock.
func (c *Chain) PreBlock(f func()) {
	if c.InBlock || c.LastHash != nil {
		panic("PreBlock after the first block")
	}
	c.InBlock = true
	defer func() { c.InBlock = false }()
	f()
}
