package chain

import (
	"bytes"
	"crypto/sha256"
	"encoding/hex"
	"encoding/json"
	"fmt"
	"math/rand"
	"os"
	"runtime/debug"
	"time"

	"github.com/CosmWasm/wasmd/x/wasm"
	abci "github.com/tendermint/tendermint/abci/types"
	"github.com/tendermint/tendermint/libs/log"
	tmproto "github.com/tendermint/tendermint/proto/tendermint/types"
	dbm "github.com/tendermint/tm-db"

	"github.com/jackalLabs/canine-chain/v4/app"
)

// A Trace is everything a node needs to re-execute a history: the genesis
// (InitChain request) and the ordered consensus calls with their payloads.
type TraceOp struct {
	Op     string `json:"op"` // init | begin | tx | end | commit
	Height int64  `json:"h,omitempty"`
	TimeNs int64  `json:"t,omitempty"`
	Bytes  []byte `json:"b,omitempty"` // genesis app state (init) or tx bytes (tx)
	Prop   []byte `json:"p,omitempty"` // proposer address (begin)
	// Digest of the observable result of this call (filled by whoever executes it)
	Digest string `json:"d,omitempty"`
	// tx only: digest of the same result without GasUsed (tells "only the gas differs" apart from other divergences)
	Digest2 string `json:"d2,omitempty"`
	// tx only, filled by Replay: "stateless-reject" when a message of the transaction fails ValidateBasic (such a
	// transaction never reaches the ante handler), with "/first-block-after-restart" appended when the instance
	// executing it was started at the previous Commit
	Class string `json:"cls,omitempty"`
	// human-readable summary (code/gas), not part of the comparison
	Info string `json:"i,omitempty"`
	// begin only: number of accounts paid by the storage module in this BeginBlock (recorded for the non-trivial rule)
	Paid int `json:"paid,omitempty"`
}

// Recorder, when installed in `Rec`, receives every consensus call of every
// Chain created in this process.
type Recorder struct {
	Chains [][]TraceOp
}

var Rec *Recorder

func (r *Recorder) newChain() int {
	r.Chains = append(r.Chains, nil)
	return len(r.Chains) - 1
}

func (r *Recorder) add(ci int, op TraceOp) {
	if ci >= 0 && ci < len(r.Chains) {
		r.Chains[ci] = append(r.Chains[ci], op)
	}
}

func digestEvents(h interface{ Write([]byte) (int, error) }, evs []abci.Event) {
	for _, e := range evs {
		fmt.Fprintf(h, "E:%s;", e.Type)
		for _, a := range e.Attributes {
			fmt.Fprintf(h, "%d:%s=%d:%s;", len(a.Key), a.Key, len(a.Value), a.Value)
		}
	}
}

func DigestBegin(res abci.ResponseBeginBlock) string {
	h := sha256.New()
	digestEvents(h, res.Events)
	return hex.EncodeToString(h.Sum(nil)[:12])
}

func DigestTx(res abci.ResponseDeliverTx) string {
	h := sha256.New()
	fmt.Fprintf(h, "code=%d;cs=%s;gu=%d;gw=%d;data=%x;", res.Code, res.Codespace, res.GasUsed, res.GasWanted, res.Data)
	digestEvents(h, res.Events)
	return hex.EncodeToString(h.Sum(nil)[:12])
}

// DigestTxNoGas is DigestTx without GasUsed.
func DigestTxNoGas(res abci.ResponseDeliverTx) string {
	h := sha256.New()
	fmt.Fprintf(h, "code=%d;cs=%s;gw=%d;data=%x;", res.Code, res.Codespace, res.GasWanted, res.Data)
	digestEvents(h, res.Events)
	return hex.EncodeToString(h.Sum(nil)[:12])
}

func DigestEnd(res abci.ResponseEndBlock) string {
	h := sha256.New()
	digestEvents(h, res.Events)
	for _, v := range res.ValidatorUpdates {
		fmt.Fprintf(h, "V:%x=%d;", v.PubKey.GetEd25519(), v.Power)
	}
	return hex.EncodeToString(h.Sum(nil)[:12])
}

// ReplayOpts control how a recorded history is re-executed.
type ReplayOpts struct {
	// Interleave > 0 sprinkles serialised CheckTx / Query / Simulate calls between
	// the consensus calls (the interleavings Tendermint's shared ABCI mutex permits).
	Interleave float64
	// Restart is the probability, per Commit, that the node is stopped and a new application instance is started on
	// the same database (everything the old instance held in memory is gone; only committed state survives).
	Restart float64
	// Crash is the probability, per call inside a block (DeliverTx, EndBlock, Commit), that the node dies before that
	// call: the open block is lost, a new instance opens the database at the last committed height and executes the
	// block again from BeginBlock (at most one crash per block).
	Crash float64
	Rng   *rand.Rand
}

// Replay re-executes one recorded chain on a fresh application and returns the
// digests it observed, in order.
func Replay(ops []TraceOp, o ReplayOpts) (out []TraceOp, perr error) {
	SetBech32()
	if len(ops) == 0 || ops[0].Op != "init" {
		return nil, fmt.Errorf("trace does not start with init")
	}
	home, err := os.MkdirTemp("", "jkverif-replay-")
	if err != nil {
		return nil, err
	}
	defer os.RemoveAll(home)
	enc := app.MakeEncodingConfig()
	db := dbm.NewMemDB()
	a := app.NewJackalApp(log.NewNopLogger(), db, nil, true, map[int64]bool{}, home, 0,
		enc, wasm.EnableAllProposals, app.EmptyBaseAppOptions{}, nil)
	restarts, crashes := 0, 0
	freshInstance := false // the running instance was started at the previous Commit
	defer func() {
		if r := recover(); r != nil {
			perr = &PanicError{Where: "replay", Value: fmt.Sprint(r), Stack: string(debug.Stack())}
		}
	}()
	var pendingTx [][]byte
	for i, op := range ops {
		if op.Op == "tx" {
			pendingTx = append(pendingTx, op.Bytes)
		}
		_ = i
	}
	txi := 0
	noise := func(committed bool) {
		if o.Interleave <= 0 || o.Rng == nil {
			return
		}
		for o.Rng.Float64() < o.Interleave {
			switch o.Rng.Intn(4) {
			case 0:
				if txi < len(pendingTx) {
					a.CheckTx(abci.RequestCheckTx{Tx: pendingTx[txi], Type: abci.CheckTxType_New})
				}
			case 1:
				if len(pendingTx) > 0 {
					a.CheckTx(abci.RequestCheckTx{Tx: pendingTx[o.Rng.Intn(len(pendingTx))], Type: abci.CheckTxType_Recheck})
				}
			case 2:
				if committed {
					a.Query(abci.RequestQuery{Path: "/canine_chain.storage.Query/Params"})
					a.Query(abci.RequestQuery{Path: "/canine_chain.storage.Query/StorageStats"})
					a.Query(abci.RequestQuery{Path: "/canine_chain.storage.Query/AllFiles"})
				}
			case 3:
				if committed && txi < len(pendingTx) {
					a.Query(abci.RequestQuery{Path: "/app/simulate", Data: pendingTx[txi]})
				}
			}
		}
	}
	committedOnce := false
	var lastHash []byte
	beginIdx, beginTxi, crashedThisBlock := -1, 0, false
	for i := 0; i < len(ops); i++ {
		op := ops[i]
		if o.Crash > 0 && o.Rng != nil && committedOnce && !crashedThisBlock && beginIdx >= 0 && (op.Op == "tx" || op.Op == "end" || op.Op == "commit") && o.Rng.Float64() < o.Crash {
			// the node dies in the middle of the block: nothing of it was committed. A new instance opens the database at
			// the last committed height and the block is executed again from its BeginBlock.
			crashedThisBlock = true
			crashes++
			h2, err := os.MkdirTemp(home, "crash-")
			if err != nil {
				return nil, err
			}
			a = app.NewJackalApp(log.NewNopLogger(), db, nil, true, map[int64]bool{}, h2, 0,
				enc, wasm.EnableAllProposals, app.EmptyBaseAppOptions{}, nil)
			freshInstance = true
			out = out[:beginIdx]
			txi = beginTxi
			i = beginIdx - 1
			continue
		}
		r := TraceOp{Op: op.Op, Height: op.Height}
		if op.Op == "begin" {
			if beginIdx != len(out) {
				crashedThisBlock = false
			}
			beginIdx, beginTxi = len(out), txi
		}
		switch op.Op {
		case "init":
			a.InitChain(abci.RequestInitChain{ChainId: ChainID, Time: time.Unix(0, op.TimeNs).UTC(), Validators: []abci.ValidatorUpdate{},
				ConsensusParams: app.DefaultConsensusParams, AppStateBytes: op.Bytes, InitialHeight: 1})
		case "begin":
			noise(committedOnce)
			res := a.BeginBlock(abci.RequestBeginBlock{Header: tmproto.Header{ChainID: ChainID, Height: op.Height, Time: time.Unix(0, op.TimeNs).UTC(), AppHash: lastHash, ProposerAddress: op.Prop}})
			r.Digest = DigestBegin(res)
		case "tx":
			noise(committedOnce)
			res := a.DeliverTx(abci.RequestDeliverTx{Tx: op.Bytes})
			txi++
			r.Digest = DigestTx(res)
			r.Digest2 = DigestTxNoGas(res)
			r.Info = fmt.Sprintf("code=%d gas=%d", res.Code, res.GasUsed)
			if tx, err := enc.TxConfig.TxDecoder()(op.Bytes); err == nil {
				for _, m := range tx.GetMsgs() {
					if m.ValidateBasic() != nil {
						r.Class = "stateless-reject"
						if freshInstance {
							r.Class += "/first-block-after-restart"
						}
						break
					}
				}
			}
		case "end":
			res := a.EndBlock(abci.RequestEndBlock{Height: op.Height})
			r.Digest = DigestEnd(res)
		case "commit":
			res := a.Commit()
			committedOnce = true
			lastHash = res.Data
			r.Digest = hex.EncodeToString(res.Data)
			if o.Restart > 0 && o.Rng != nil && o.Rng.Float64() < o.Restart {
				// node restart: a new instance over the same database (its own wasm cache directory)
				restarts++
				h2, err := os.MkdirTemp(home, "restart-")
				if err != nil {
					return nil, err
				}
				a = app.NewJackalApp(log.NewNopLogger(), db, nil, true, map[int64]bool{}, h2, 0,
					enc, wasm.EnableAllProposals, app.EmptyBaseAppOptions{}, nil)
				if got := a.LastCommitID().Hash; !bytes.Equal(got, lastHash) {
					r.Digest = "restarted instance reports last commit " + hex.EncodeToString(got)
				}
				r.Info = "restart"
				freshInstance = true
			} else {
				freshInstance = false
			}
			noise(true)
		case "sim":
			// a transaction some client asked this node to simulate; it is never delivered. Only nodes that serve
			// such requests execute it (process A does not).
			if o.Interleave > 0 && committedOnce {
				a.Query(abci.RequestQuery{Path: "/app/simulate", Data: op.Bytes})
			}
		}
		out = append(out, r)
	}
	// trailing pseudo-step (ignored by the step-by-step comparison): what this re-execution was put through
	out = append(out, TraceOp{Op: "stats", Info: fmt.Sprintf("restarts=%d crashes=%d", restarts, crashes)})
	return out, nil
}

func WriteTrace(path string, chains [][]TraceOp) error {
	bz, err := json.Marshal(chains)
	if err != nil {
		return err
	}
	return os.WriteFile(path, bz, 0o644)
}

func ReadTrace(path string) ([][]TraceOp, error) {
	bz, err := os.ReadFile(path)
	if err != nil {
		return nil, err
	}
	var chains [][]TraceOp
	return chains, json.Unmarshal(bz, &chains)
}
