// Package chain drives the real, fully assembled JackalApp through its ABCI
// boundary (InitChain / BeginBlock / DeliverTx / EndBlock / Commit), exactly
// as Tendermint does, over an in-memory database.
package chain

import (
	"math/rand"
	"bytes"
	"encoding/hex"
	"encoding/json"
	"fmt"
	"os"
	"runtime/debug"
	"sort"
	"sync"
	"time"

	"github.com/CosmWasm/wasmd/x/wasm"
	"github.com/cosmos/cosmos-sdk/codec"
	codectypes "github.com/cosmos/cosmos-sdk/codec/types"
	"github.com/cosmos/cosmos-sdk/crypto/keys/ed25519"
	"github.com/cosmos/cosmos-sdk/crypto/keys/secp256k1"
	cryptotypes "github.com/cosmos/cosmos-sdk/crypto/types"
	"github.com/cosmos/cosmos-sdk/simapp/helpers"
	sdk "github.com/cosmos/cosmos-sdk/types"
	authtypes "github.com/cosmos/cosmos-sdk/x/auth/types"
	banktypes "github.com/cosmos/cosmos-sdk/x/bank/types"
	govtypes "github.com/cosmos/cosmos-sdk/x/gov/types"
	paramproposal "github.com/cosmos/cosmos-sdk/x/params/types/proposal"
	stakingtypes "github.com/cosmos/cosmos-sdk/x/staking/types"
	abci "github.com/tendermint/tendermint/abci/types"
	"github.com/tendermint/tendermint/libs/log"
	tmproto "github.com/tendermint/tendermint/proto/tendermint/types"
	dbm "github.com/tendermint/tm-db"

	"github.com/jackalLabs/canine-chain/v4/app"
	minttypes "github.com/jackalLabs/canine-chain/v4/x/jklmint/types"
	notiftypes "github.com/jackalLabs/canine-chain/v4/x/notifications/types"
	oracletypes "github.com/jackalLabs/canine-chain/v4/x/oracle/types"
	rnstypes "github.com/jackalLabs/canine-chain/v4/x/rns/types"
	storagetypes "github.com/jackalLabs/canine-chain/v4/x/storage/types"
)

const (
	ChainID   = "jkverif-1"
	BondDenom = "ujkl"
)

var cfgOnce sync.Once

// SetBech32 must run before anything touches addresses.
func SetBech32() {
	cfgOnce.Do(func() {
		c := sdk.GetConfig()
		c.SetBech32PrefixForAccount("jkl", "jklpub")
		c.SetBech32PrefixForValidator("jklvaloper", "jklvaloperpub")
		c.SetBech32PrefixForConsensusNode("jklvalcons", "jklvalconspub")
		c.Seal()
	})
}

type Acc struct {
	Priv cryptotypes.PrivKey
	Addr sdk.AccAddress
	Bech string
	Num  uint64
}

type Config struct {
	Seed     int64
	NAcc     int       // number of funded user accounts (>=1; account 0 is the delegator)
	Fund     sdk.Coins // per account; default 10^15 ujkl
	Storage  *storagetypes.Params
	Mint     *minttypes.Params
	RnsNames []rnstypes.Names // seeded names (e.g. about to expire)
	// GovVotingSeconds > 0 shortens the gov voting period so that
	// parameter-change proposals can pass inside a run.
	GovVotingSeconds int
	GenesisTime      time.Time
	// Mutate may edit the genesis map after the defaults above were applied.
	Mutate func(cdc codec.JSONCodec, gs app.GenesisState)
	// AppState, when non-nil, is used verbatim (export/import round trips).
	AppState json.RawMessage
}

type Event struct {
	Type  string
	Attrs [][2]string
}

func (e Event) Get(k string) string {
	for _, a := range e.Attrs {
		if a[0] == k {
			return a[1]
		}
	}
	return ""
}

type TxResult struct {
	Code      uint32
	Codespace string
	Log       string
	GasUsed   int64
	GasWanted int64
	Data      []byte
	Events    []Event
	TxBytes   []byte
}

func (r TxResult) OK() bool { return r.Code == 0 }

// MsgResponse unmarshals the i-th message response of a successful tx.
func (r TxResult) MsgResponse(i int, out codec.ProtoMarshaler) error {
	var d sdk.TxMsgData
	if err := d.Unmarshal(r.Data); err != nil {
		return err
	}
	if i >= len(d.Data) {
		return fmt.Errorf("no msg data %d", i)
	}
	return out.Unmarshal(d.Data[i].Data)
}

type Chain struct {
	App     *app.JackalApp
	Enc     codec.Codec
	Accs    []Acc
	ValPriv *ed25519.PrivKey
	Height  int64 // height of the open (or last committed) block
	Time    time.Time
	InBlock bool
	Cfg     Config
	home    string
	header  tmproto.Header
	// Dead is set after a panic escaped a consensus call; the app must not be used further.
	Dead     bool
	LastHash []byte
	rec      int // 1 + index into Rec.Chains, 0 = not recorded
	db       dbm.DB
}

// Node-restart injection. When RestartProb > 0 every Commit of every chain is followed, with that probability, by a
// node restart: the application instance is dropped and a new one is opened on the same database (same home directory),
// the way a validator process is stopped and started between two blocks. Only committed state survives; whatever a
// keeper held in process memory is gone. For correct code this is unobservable. The framework switches it on for a
// fixed subset of the cases of every property (framework.go).
var (
	RestartProb float64
	RestartRng  *rand.Rand
	Restarts    int
)

func (c *Chain) restart() (err error) {
	defer func() {
		if r := recover(); r != nil {
			err = fmt.Errorf("opening a new application instance on the committed database panicked: %v", r)
		}
	}()
	enc := app.MakeEncodingConfig()
	a := app.NewJackalApp(log.NewNopLogger(), c.db, nil, true, map[int64]bool{}, c.home, 0,
		enc, wasm.EnableAllProposals, app.EmptyBaseAppOptions{}, nil)
	if got := a.LastCommitID().Hash; !bytes.Equal(got, c.LastHash) {
		return fmt.Errorf("restarted instance reports last commit %x, the stopped one committed %x", got, c.LastHash)
	}
	c.App = a
	c.Enc = enc.Marshaler
	Restarts++
	return nil
}

type PanicError struct {
	Where string
	Value string
	Stack string
}

func (p *PanicError) Error() string { return fmt.Sprintf("panic in %s: %s", p.Where, p.Value) }

func DeriveKey(seed int64, i int) cryptotypes.PrivKey {
	return secp256k1.GenPrivKeyFromSecret([]byte(fmt.Sprintf("jkverif-acc-%d-%d", seed, i)))
}

func ModuleAddr(name string) sdk.AccAddress { return authtypes.NewModuleAddress(name) }

// New builds a fresh application and runs InitChain.
func New(cfg Config) (*Chain, error) {
	SetBech32()
	if cfg.NAcc <= 0 {
		cfg.NAcc = 4
	}
	if cfg.Fund == nil {
		cfg.Fund = sdk.NewCoins(sdk.NewInt64Coin(BondDenom, 1_000_000_000_000_000))
	}
	if cfg.GenesisTime.IsZero() {
		cfg.GenesisTime = time.Date(2025, 1, 1, 0, 0, 0, 0, time.UTC)
	}
	home, err := os.MkdirTemp("", "jkverif-home-")
	if err != nil {
		return nil, err
	}
	enc := app.MakeEncodingConfig()
	db := dbm.NewMemDB()
	a := app.NewJackalApp(log.NewNopLogger(), db, nil, true, map[int64]bool{}, home, 0,
		enc, wasm.EnableAllProposals, app.EmptyBaseAppOptions{}, nil)
	c := &Chain{App: a, Enc: enc.Marshaler, Cfg: cfg, home: home, Time: cfg.GenesisTime, db: db}

	for i := 0; i < cfg.NAcc; i++ {
		p := DeriveKey(cfg.Seed, i)
		ad := sdk.AccAddress(p.PubKey().Address())
		c.Accs = append(c.Accs, Acc{Priv: p, Addr: ad, Bech: ad.String(), Num: uint64(i)})
	}
	c.ValPriv = ed25519.GenPrivKeyFromSecret([]byte(fmt.Sprintf("jkverif-val-%d", cfg.Seed)))

	var stateBytes []byte
	if cfg.AppState != nil {
		stateBytes = cfg.AppState
	} else {
		gs := app.NewDefaultGenesisState()
		cdc := enc.Marshaler
		// auth
		var genAccs []authtypes.GenesisAccount
		for i, ac := range c.Accs {
			genAccs = append(genAccs, authtypes.NewBaseAccount(ac.Addr, nil, uint64(i), 0))
		}
		gs[authtypes.ModuleName] = cdc.MustMarshalJSON(authtypes.NewGenesisState(authtypes.DefaultParams(), genAccs))
		// staking: one bonded validator delegated by account 0
		bondAmt := sdk.NewInt(1_000_000)
		pkAny, err := codectypes.NewAnyWithValue(c.ValPriv.PubKey())
		if err != nil {
			return nil, err
		}
		valAddr := sdk.ValAddress(c.ValPriv.PubKey().Address())
		validator := stakingtypes.Validator{
			OperatorAddress: valAddr.String(), ConsensusPubkey: pkAny, Jailed: false,
			Status: stakingtypes.Bonded, Tokens: bondAmt, DelegatorShares: bondAmt.ToDec(),
			Description: stakingtypes.Description{}, UnbondingHeight: 0, UnbondingTime: time.Unix(0, 0).UTC(),
			Commission:        stakingtypes.NewCommission(sdk.ZeroDec(), sdk.ZeroDec(), sdk.ZeroDec()),
			MinSelfDelegation: sdk.ZeroInt(),
		}
		sp := stakingtypes.DefaultParams()
		sp.BondDenom = BondDenom
		gs[stakingtypes.ModuleName] = cdc.MustMarshalJSON(stakingtypes.NewGenesisState(sp,
			[]stakingtypes.Validator{validator},
			[]stakingtypes.Delegation{stakingtypes.NewDelegation(c.Accs[0].Addr, valAddr, bondAmt.ToDec())}))
		// bank
		var balances []banktypes.Balance
		supply := sdk.NewCoins()
		for _, ac := range c.Accs {
			balances = append(balances, banktypes.Balance{Address: ac.Bech, Coins: cfg.Fund})
			supply = supply.Add(cfg.Fund...)
		}
		bonded := sdk.NewCoins(sdk.NewCoin(BondDenom, bondAmt))
		balances = append(balances, banktypes.Balance{Address: ModuleAddr(stakingtypes.BondedPoolName).String(), Coins: bonded})
		supply = supply.Add(bonded...)
		gs[banktypes.ModuleName] = cdc.MustMarshalJSON(banktypes.NewGenesisState(banktypes.DefaultGenesisState().Params, balances, supply, []banktypes.Metadata{}))
		// gov
		if cfg.GovVotingSeconds > 0 {
			gg := govtypes.DefaultGenesisState()
			gg.VotingParams.VotingPeriod = time.Duration(cfg.GovVotingSeconds) * time.Second
			gg.DepositParams.MinDeposit = sdk.NewCoins(sdk.NewInt64Coin(BondDenom, 1))
			gs[govtypes.ModuleName] = cdc.MustMarshalJSON(gg)
		}
		// storage
		{
			var sg storagetypes.GenesisState
			cdc.MustUnmarshalJSON(gs[storagetypes.ModuleName], &sg)
			if cfg.Storage != nil {
				sg.Params = *cfg.Storage
			}
			if sg.Params.DepositAccount == "" || sg.Params.DepositAccount[:3] != "jkl" {
				sg.Params.DepositAccount = sdk.AccAddress([]byte("storage-deposit-acct")).String()
			}
			gs[storagetypes.ModuleName] = cdc.MustMarshalJSON(&sg)
		}
		// oracle
		{
			var og oracletypes.GenesisState
			cdc.MustUnmarshalJSON(gs[oracletypes.ModuleName], &og)
			og.Params.Deposit = OracleDeposit().String()
			gs[oracletypes.ModuleName] = cdc.MustMarshalJSON(&og)
		}
		// jklmint
		if cfg.Mint != nil {
			var mg minttypes.GenesisState
			cdc.MustUnmarshalJSON(gs[minttypes.ModuleName], &mg)
			mg.Params = *cfg.Mint
			gs[minttypes.ModuleName] = cdc.MustMarshalJSON(&mg)
		}
		// rns
		if len(cfg.RnsNames) > 0 {
			var rg rnstypes.GenesisState
			cdc.MustUnmarshalJSON(gs[rnstypes.ModuleName], &rg)
			rg.NamesList = append(rg.NamesList, cfg.RnsNames...)
			gs[rnstypes.ModuleName] = cdc.MustMarshalJSON(&rg)
		}
		_ = notiftypes.ModuleName
		if cfg.Mutate != nil {
			cfg.Mutate(cdc, gs)
		}
		stateBytes, err = json.Marshal(gs)
		if err != nil {
			return nil, err
		}
	}
	if Rec != nil {
		c.rec = Rec.newChain() + 1
		Rec.add(c.rec-1, TraceOp{Op: "init", TimeNs: cfg.GenesisTime.UnixNano(), Bytes: stateBytes})
	}
	var perr error
	func() {
		defer func() {
			if r := recover(); r != nil {
				perr = &PanicError{Where: "InitChain", Value: fmt.Sprint(r), Stack: string(debug.Stack())}
			}
		}()
		a.InitChain(abci.RequestInitChain{
			ChainId:         ChainID,
			Time:            cfg.GenesisTime,
			Validators:      []abci.ValidatorUpdate{},
			ConsensusParams: app.DefaultConsensusParams,
			AppStateBytes:   stateBytes,
			InitialHeight:   1,
		})
	}()
	if perr != nil {
		c.Dead = true
		return c, perr
	}
	return c, nil
}

func OracleDeposit() sdk.AccAddress { return sdk.AccAddress([]byte("oracle-deposit-acct!")) }

// Close releases the temporary home directory.
func (c *Chain) Close() {
	if c.home != "" {
		os.RemoveAll(c.home)
		c.home = ""
	}
}

func convEvents(evs []abci.Event) []Event {
	out := make([]Event, 0, len(evs))
	for _, e := range evs {
		ev := Event{Type: e.Type}
		for _, a := range e.Attributes {
			ev.Attrs = append(ev.Attrs, [2]string{string(a.Key), string(a.Value)})
		}
		out = append(out, ev)
	}
	return out
}

// BeginBlock opens block Height+1 at time Time+dt. A panic escaping the app is
// returned as *PanicError and marks the chain dead.
func (c *Chain) BeginBlock(dt time.Duration) (evs []Event, perr error) {
	if c.Dead {
		return nil, fmt.Errorf("chain is dead")
	}
	if c.InBlock {
		panic("BeginBlock inside block")
	}
	c.Height++
	c.Time = c.Time.Add(dt)
	c.header = tmproto.Header{ChainID: ChainID, Height: c.Height, Time: c.Time, AppHash: c.LastHash,
		ProposerAddress: c.ValPriv.PubKey().Address()}
	defer func() {
		if r := recover(); r != nil {
			c.Dead = true
			perr = &PanicError{Where: fmt.Sprintf("BeginBlock(h=%d)", c.Height), Value: fmt.Sprint(r), Stack: string(debug.Stack())}
		}
	}()
	res := c.App.BeginBlock(abci.RequestBeginBlock{Header: c.header})
	c.InBlock = true
	if Rec != nil && c.rec > 0 {
		paid := map[string]bool{}
		mod := ModuleAddr("storage").String()
		for _, t := range Transfers(convEvents(res.Events)) {
			if t.From == mod {
				paid[t.To] = true
			}
		}
		Rec.add(c.rec-1, TraceOp{Op: "begin", Height: c.Height, TimeNs: c.Time.UnixNano(), Prop: c.header.ProposerAddress, Digest: DigestBegin(res), Paid: len(paid)})
	}
	return convEvents(res.Events), nil
}

func (c *Chain) EndBlock() (evs []Event, perr error) {
	if !c.InBlock {
		panic("EndBlock outside block")
	}
	defer func() {
		if r := recover(); r != nil {
			c.Dead = true
			perr = &PanicError{Where: fmt.Sprintf("EndBlock(h=%d)", c.Height), Value: fmt.Sprint(r), Stack: string(debug.Stack())}
		}
	}()
	res := c.App.EndBlock(abci.RequestEndBlock{Height: c.Height})
	if Rec != nil && c.rec > 0 {
		Rec.add(c.rec-1, TraceOp{Op: "end", Height: c.Height, Digest: DigestEnd(res)})
	}
	return convEvents(res.Events), nil
}

func (c *Chain) Commit() (hash []byte, perr error) {
	defer func() {
		if r := recover(); r != nil {
			c.Dead = true
			perr = &PanicError{Where: fmt.Sprintf("Commit(h=%d)", c.Height), Value: fmt.Sprint(r), Stack: string(debug.Stack())}
		}
	}()
	res := c.App.Commit()
	c.InBlock = false
	c.LastHash = res.Data
	if Rec != nil && c.rec > 0 {
		Rec.add(c.rec-1, TraceOp{Op: "commit", Height: c.Height, Digest: hex.EncodeToString(res.Data)})
	}
	if RestartProb > 0 && RestartRng != nil && c.db != nil && RestartRng.Float64() < RestartProb {
		if err := c.restart(); err != nil {
			c.Dead = true
			return res.Data, &PanicError{Where: fmt.Sprintf("node restart after Commit(h=%d)", c.Height), Value: err.Error()}
		}
	}
	return res.Data, nil
}

// EndAndCommit closes the open block.
func (c *Chain) EndAndCommit() error {
	if _, err := c.EndBlock(); err != nil {
		return err
	}
	_, err := c.Commit()
	return err
}

// NextBlock closes the open block if any and opens the next one.
func (c *Chain) NextBlock(dt time.Duration) ([]Event, error) {
	if c.InBlock {
		if err := c.EndAndCommit(); err != nil {
			return nil, err
		}
	}
	return c.BeginBlock(dt)
}

// Ctx returns a context over the deliver state while a block is open
// (uncommitted effects of already delivered transactions are visible), or
// over the check state (== last committed state) between blocks.
func (c *Chain) Ctx() sdk.Context {
	if c.InBlock || c.LastHash == nil {
		// after InitChain and before the first Commit the genesis writes live in the deliver state
		return c.App.BaseApp.NewContext(false, c.header)
	}
	h := c.header
	return c.App.BaseApp.NewContext(true, h)
}

func (c *Chain) seq(addr sdk.AccAddress) (uint64, uint64, bool) {
	acc := c.App.AccountKeeper.GetAccount(c.Ctx(), addr)
	if acc == nil {
		return 0, 0, false
	}
	return acc.GetAccountNumber(), acc.GetSequence(), true
}

// BuildTx signs msgs with the given key using the signer's current on-chain
// account number and sequence.
func (c *Chain) BuildTx(priv cryptotypes.PrivKey, gas uint64, msgs ...sdk.Msg) ([]byte, error) {
	addr := sdk.AccAddress(priv.PubKey().Address())
	num, seq, _ := c.seq(addr)
	txc := app.MakeEncodingConfig().TxConfig
	tx, err := helpers.GenTx(txc, msgs, sdk.NewCoins(), gas, ChainID, []uint64{num}, []uint64{seq}, priv)
	if err != nil {
		return nil, err
	}
	return txc.TxEncoder()(tx)
}

const DefaultGas = 20_000_000

// SimOnly records a signed transaction that a client asks some nodes to simulate (gas estimation) and that is never
// delivered. The recording process does not execute it; re-executions may (record.go, op "sim").
func (c *Chain) SimOnly(i int, msgs ...sdk.Msg) {
	if Rec == nil || c.rec == 0 {
		return
	}
	bz, err := c.BuildTx(c.Accs[i].Priv, DefaultGas, msgs...)
	if err != nil {
		return
	}
	Rec.add(c.rec-1, TraceOp{Op: "sim", Height: c.Height, Bytes: bz})
}

// Deliver signs and delivers one transaction inside the open block.
func (c *Chain) Deliver(priv cryptotypes.PrivKey, msgs ...sdk.Msg) TxResult {
	return c.DeliverGas(priv, DefaultGas, msgs...)
}

func (c *Chain) DeliverGas(priv cryptotypes.PrivKey, gas uint64, msgs ...sdk.Msg) (res TxResult) {
	if !c.InBlock {
		panic("Deliver outside block")
	}
	var bz []byte
	var err error
	func() {
		defer func() {
			if r := recover(); r != nil {
				err = fmt.Errorf("tx build panic: %v", r)
			}
		}()
		bz, err = c.BuildTx(priv, gas, msgs...)
	}()
	if err != nil {
		return TxResult{Code: 1 << 30, Codespace: "jkverif", Log: "cannot build tx: " + err.Error()}
	}
	return c.DeliverRaw(bz)
}

func (c *Chain) DeliverRaw(bz []byte) TxResult {
	r := c.App.DeliverTx(abci.RequestDeliverTx{Tx: bz})
	if Rec != nil && c.rec > 0 {
		Rec.add(c.rec-1, TraceOp{Op: "tx", Height: c.Height, Bytes: bz, Digest: DigestTx(r), Digest2: DigestTxNoGas(r), Info: fmt.Sprintf("code=%d gas=%d", r.Code, r.GasUsed)})
	}
	return TxResult{Code: r.Code, Codespace: r.Codespace, Log: r.Log, GasUsed: r.GasUsed, GasWanted: r.GasWanted,
		Data: r.Data, Events: convEvents(r.Events), TxBytes: bz}
}

// DeliverAs is Deliver with account i's key.
func (c *Chain) DeliverAs(i int, msgs ...sdk.Msg) TxResult { return c.Deliver(c.Accs[i].Priv, msgs...) }

// ---------------------------------------------------------------- bank observation

type Balances map[string]sdk.Coins

func (c *Chain) Snapshot() Balances {
	out := Balances{}
	c.App.BankKeeper.IterateAllBalances(c.Ctx(), func(a sdk.AccAddress, coin sdk.Coin) bool {
		k := a.String()
		out[k] = out[k].Add(coin)
		return false
	})
	return out
}

func (c *Chain) Supply() sdk.Coins {
	s := sdk.NewCoins()
	c.App.BankKeeper.IterateTotalSupply(c.Ctx(), func(coin sdk.Coin) bool {
		s = s.Add(coin)
		return false
	})
	return s
}

func (c *Chain) Balance(addr string, denom string) sdk.Int {
	a, err := sdk.AccAddressFromBech32(addr)
	if err != nil {
		return sdk.ZeroInt()
	}
	return c.App.BankKeeper.GetBalance(c.Ctx(), a, denom).Amount
}

// Delta is a per-account, per-denom signed difference.
type Delta map[string]map[string]sdk.Int

func Diff(pre, post Balances) Delta {
	d := Delta{}
	keys := map[string]bool{}
	for k := range pre {
		keys[k] = true
	}
	for k := range post {
		keys[k] = true
	}
	for k := range keys {
		denoms := map[string]bool{}
		for _, cn := range pre[k] {
			denoms[cn.Denom] = true
		}
		for _, cn := range post[k] {
			denoms[cn.Denom] = true
		}
		for dn := range denoms {
			df := post[k].AmountOf(dn).Sub(pre[k].AmountOf(dn))
			if !df.IsZero() {
				if d[k] == nil {
					d[k] = map[string]sdk.Int{}
				}
				d[k][dn] = df
			}
		}
	}
	return d
}

func (d Delta) Of(addr, denom string) sdk.Int {
	if m, ok := d[addr]; ok {
		if v, ok := m[denom]; ok {
			return v
		}
	}
	return sdk.ZeroInt()
}

func (d Delta) Accounts() []string {
	var out []string
	for k := range d {
		out = append(out, k)
	}
	sort.Strings(out)
	return out
}

func (d Delta) String() string {
	s := ""
	for _, k := range d.Accounts() {
		var dn []string
		for x := range d[k] {
			dn = append(dn, x)
		}
		sort.Strings(dn)
		for _, x := range dn {
			s += fmt.Sprintf("%s:%s%s ", k, d[k][x].String(), x)
		}
	}
	return s
}

// Transfer is one decoded bank `transfer` event.
type Transfer struct {
	From, To string
	Coins    sdk.Coins
}

func Transfers(evs []Event) []Transfer {
	var out []Transfer
	for _, e := range evs {
		if e.Type != banktypes.EventTypeTransfer {
			continue
		}
		cs, err := sdk.ParseCoinsNormalized(e.Get(sdk.AttributeKeyAmount))
		if err != nil {
			continue
		}
		out = append(out, Transfer{From: e.Get(banktypes.AttributeKeySender), To: e.Get(banktypes.AttributeKeyRecipient), Coins: cs})
	}
	return out
}

// Coinbase returns minted coins per minter address from `coinbase` events.
func Coinbase(evs []Event) map[string]sdk.Coins {
	out := map[string]sdk.Coins{}
	for _, e := range evs {
		if e.Type != banktypes.EventTypeCoinMint {
			continue
		}
		cs, err := sdk.ParseCoinsNormalized(e.Get(sdk.AttributeKeyAmount))
		if err != nil {
			continue
		}
		m := e.Get(banktypes.AttributeKeyMinter)
		out[m] = out[m].Add(cs...)
	}
	return out
}

// ---------------------------------------------------------------- raw KV observation

// KV dumps every key/value of a module store under the current context.
func (c *Chain) KV(store string) map[string][]byte {
	key := c.App.VerifStoreKey(store)
	out := map[string][]byte{}
	if key == nil {
		return out
	}
	it := c.Ctx().KVStore(key).Iterator(nil, nil)
	defer it.Close()
	for ; it.Valid(); it.Next() {
		v := make([]byte, len(it.Value()))
		copy(v, it.Value())
		out[string(it.Key())] = v
	}
	return out
}

type KVChange struct {
	Key      string
	Old, New []byte // nil = absent
}

func KVDiff(pre, post map[string][]byte) []KVChange {
	var out []KVChange
	for k, v := range pre {
		nv, ok := post[k]
		if !ok {
			out = append(out, KVChange{Key: k, Old: v})
		} else if string(nv) != string(v) {
			out = append(out, KVChange{Key: k, Old: v, New: nv})
		}
	}
	for k, v := range post {
		if _, ok := pre[k]; !ok {
			out = append(out, KVChange{Key: k, New: v})
		}
	}
	sort.Slice(out, func(i, j int) bool { return out[i].Key < out[j].Key })
	return out
}

// CustomStores are the six stores owned by the custom modules.
var CustomStores = []string{"storage", "rns", "filetree", "oracle", "notification", "jklmint"}

// ---------------------------------------------------------------- governance

// ParamChange submits and passes a parameter-change proposal (real governance:
// MsgSubmitProposal + MsgVote by account 0, the sole delegator). It must be
// called inside an open block and returns inside an open block, a few blocks later.
func (c *Chain) ParamChange(subspace, key, jsonValue string) error {
	if c.Cfg.GovVotingSeconds <= 0 {
		return fmt.Errorf("gov voting period not shortened in this run")
	}
	content := paramproposal.NewParameterChangeProposal("t", "d", []paramproposal.ParamChange{{Subspace: subspace, Key: key, Value: jsonValue}})
	msg, err := govtypes.NewMsgSubmitProposal(content, sdk.NewCoins(sdk.NewInt64Coin(BondDenom, 10)), c.Accs[0].Addr)
	if err != nil {
		return err
	}
	r := c.DeliverAs(0, msg)
	if !r.OK() {
		return fmt.Errorf("submit proposal: %s", r.Log)
	}
	var resp govtypes.MsgSubmitProposalResponse
	if err := r.MsgResponse(0, &resp); err != nil {
		return err
	}
	r = c.DeliverAs(0, govtypes.NewMsgVote(c.Accs[0].Addr, resp.ProposalId, govtypes.OptionYes))
	if !r.OK() {
		return fmt.Errorf("vote: %s", r.Log)
	}
	if _, err := c.NextBlock(time.Duration(c.Cfg.GovVotingSeconds+1) * time.Second); err != nil {
		return err
	}
	if _, err := c.NextBlock(time.Second); err != nil {
		return err
	}
	var pr govtypes.QueryProposalResponse
	if err := c.GRPC("/cosmos.gov.v1beta1.Query/Proposal", &govtypes.QueryProposalRequest{ProposalId: resp.ProposalId}, &pr); err != nil {
		return err
	}
	if pr.Proposal.Status != govtypes.StatusPassed {
		return fmt.Errorf("proposal %d did not pass (status %s)", resp.ProposalId, pr.Proposal.Status)
	}
	return nil
}

// GRPC routes a gRPC query through the app's query router on the current
// context (deliver state inside a block), the way baseapp invokes handlers.
func (c *Chain) GRPC(path string, req codec.ProtoMarshaler, resp codec.ProtoMarshaler) error {
	h := c.App.GRPCQueryRouter().Route(path)
	if h == nil {
		return fmt.Errorf("no query route %s", path)
	}
	bz, err := req.Marshal()
	if err != nil {
		return err
	}
	var res abci.ResponseQuery
	var perr error
	func() {
		defer func() {
			if r := recover(); r != nil {
				perr = fmt.Errorf("query %s panicked: %v", path, r)
			}
		}()
		res, err = h(c.Ctx(), abci.RequestQuery{Data: bz, Path: path})
	}()
	if perr != nil {
		return perr
	}
	if err != nil {
		return err
	}
	return resp.Unmarshal(res.Value)
}
